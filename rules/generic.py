"""Facts about the generic node types of common.py (shared by C02, C03, C08).

Each fact is decided from the abstract evaluation of the generic method, not from its text:
renaming locals, reformatting or re-ordering independent statements does not change it.
A shape the recogniser does not understand raises AnalysisError (exit 2) — never a verdict.
"""
from __future__ import annotations

import ast

from sa.absint import Evaluator, all_effects
from sa.index import AnalysisError
from sa.terms import App, Const, Ref, Sym, contains, dict_pairs, subterms

COMMON = "suit_generator.suit.types.common"


def _outs(ctx, qual, depth=0):
    ev = Evaluator(ctx.repo, inline_depth=depth)
    fi = ctx.repo.func(COMMON, qual)
    return fi, ev.outcomes(fi)


def _has_op(t, op):
    return contains(t, lambda s: isinstance(s, App) and s.op == op)


def _attr_ops(t):
    return {s.op for s in subterms(t) if isinstance(s, App) and s.op.startswith("attr:")}


def _iter_self_value(t) -> bool:
    """Term derives from iterating self.value (items / elements)."""
    return contains(t, lambda s: isinstance(s, App) and s.op == "elem" and contains(
        s.args[0], lambda u: isinstance(u, App) and u.op == "attr:value"))


def source_with_helpers(repo, f, _depth=0) -> str:
    """Source text of a function for cheap pre-filters ("does it mention X at all"), with the text of the helpers it calls that the
    rules have never seen (see Evaluator.is_new_helper) appended: what moved into such a helper still counts as written in f."""
    from sa.absint import _known_functions
    known = _known_functions()
    src = ast.unparse(f.node)
    if known is None or _depth >= 3:
        return src
    called = {n.func.attr if isinstance(n.func, ast.Attribute) else n.func.id for n in ast.walk(f.node)
              if isinstance(n, ast.Call) and isinstance(n.func, (ast.Attribute, ast.Name))}
    for g in repo.all_functions():
        if g is not f and g.name in called and g.fq not in known:
            src += "\n" + source_with_helpers(repo, g, _depth + 1)
    return src


def norm_cond(c):
    """Membership tests in one spelling: `k not in d` -> not(k in d); `k in d.keys()` -> k in d."""
    if isinstance(c, App):
        if c.op == "not in":
            return App("not", (norm_cond(App("in", c.args)),))
        if c.op == "in" and isinstance(c.args[1], App) and c.args[1].op == "meth:keys" and len(c.args[1].args) == 1:
            return App("in", (norm_cond(c.args[0]), norm_cond(c.args[1].args[0])))
        return App(c.op, [norm_cond(a) for a in c.args], c.node)
    return c


def conjuncts(conds):
    """The conditions of a path with every `a and b` split into a, b (each of them holds on the path)."""
    out = []
    for c in conds:
        if isinstance(c, App) and c.op == "and":
            out += conjuncts(c.args)
        else:
            out.append(c)
    return out


def norm_guards(guards):
    """[(condition, polarity)] with negations folded into the polarity and membership tests in one spelling (norm_cond)."""
    out = []
    for g, pol in guards:
        g = norm_cond(g)
        while isinstance(g, App) and g.op == "not" and len(g.args) == 1:
            g, pol = g.args[0], not pol
        out.append((g, pol))
    return out


def taken_outcomes(outs, facts, strict=True):
    """The outcomes of a function whose path conditions all hold under `facts` ({atomic condition term: bool}, atoms spelled as by
    norm_cond).  Conditions are evaluated in path order and evaluation stops at the first false one.  A condition the facts do not
    decide raises AnalysisError when `strict`; otherwise the outcome counts as possible (the caller requires every possible outcome
    to be the expected one: the case then decides the result whatever that extra condition says)."""
    from sa.teval import teval, Unknown
    out = []
    for o in outs:
        ok = True
        for c in o.conds:
            try:
                if not teval(norm_cond(c), facts):
                    ok = False
                    break
            except Unknown as e:
                if strict:
                    raise AnalysisError(f"path condition not decided by the case analysis: {repr(c)[:160]} ({e})")
        if ok and _assumes_hold(o.effects, facts):
            out.append(o)
    return out


def _assumes_hold(effects, facts) -> bool:
    """False when a fact the path has established on its way (an `if …: raise` it has passed) contradicts the case."""
    from sa.teval import teval, Unknown
    for e in effects:
        if not isinstance(e, App):
            continue
        if e.op == "eff:assume":
            try:
                if not teval(norm_cond(e.args[0]), facts):
                    return False
            except Unknown:
                pass
        elif e.op == "eff:if":
            try:
                g = teval(norm_cond(e.args[0]), facts)
            except Unknown:
                continue
            if not _assumes_hold(e.args[1].args if g else e.args[2].args, facts):
                return False
    return True


def select_alternative(t, facts):
    """The term with every conditional (phi) resolved by `facts` (see taken_outcomes)."""
    from sa.teval import teval, Unknown
    if isinstance(t, App) and t.op == "phi":
        try:
            g = teval(norm_cond(t.args[0]), facts)
        except Unknown as e:
            raise AnalysisError(f"selection not decided by the case analysis: {repr(t.args[0])[:160]} ({e})")
        return select_alternative(t.args[1] if g else t.args[2], facts)
    if isinstance(t, App):
        return App(t.op, [select_alternative(a, facts) for a in t.args], t.node)
    return t


def select_alternatives(t, facts, limit=64):
    """Every phi-free reading of the term under `facts`: a conditional the facts decide takes that side, one they do not decide
    takes both."""
    from sa.teval import teval, Unknown
    if isinstance(t, App) and t.op == "phi":
        try:
            g = teval(norm_cond(t.args[0]), facts)
            return select_alternatives(t.args[1] if g else t.args[2], facts, limit)
        except Unknown:
            return select_alternatives(t.args[1], facts, limit) + select_alternatives(t.args[2], facts, limit)
    if isinstance(t, App):
        per = [select_alternatives(a, facts, limit) for a in t.args]
        n = 1
        for p_ in per:
            n *= len(p_)
        if n > limit:
            raise AnalysisError("case analysis: too many undecided alternatives")
        from itertools import product
        return [App(t.op, list(combo), t.node) for combo in product(*per)]
    return [t]


def container_puts(o):
    """[(kind, key or None, value)]: every value an outcome places into a container under construction, whatever the way it is
    written - subscript stores ('store'), append / insert / add / extend / update calls ('call'; the items of a tuple or list literal
    handed to extend count one by one), element expressions of comprehensions in the result ('comp')."""
    out = []
    for e in all_effects(o.effects):
        if not isinstance(e, App):
            continue
        if e.op == "eff:store":
            out.append(("store", e.args[1], e.args[2]))
        elif e.op == "eff:call" and isinstance(e.args[0], App) and e.args[0].op in ("meth:append", "meth:update", "meth:extend", "meth:insert", "meth:add"):
            from sa.terms import top_cases
            for a_ in e.args[0].args[1:]:
                # extend(x if c else (y,)): each alternative on its own; a tuple / list literal contributes its items
                from sa.terms import dict_pairs as _dp
                for _, alt in (top_cases(a_) if e.args[0].op in ("meth:extend", "meth:update") else [({}, a_)]):
                    if e.args[0].op == "meth:extend" and isinstance(alt, App) and alt.op in ("tuple", "list"):
                        out += [("call", None, x) for x in alt.args]
                    elif e.args[0].op == "meth:update" and isinstance(alt, App) and _dp(alt) is not None and all(
                            not (isinstance(k_, App) and k_.op == "spread") for k_, _v in _dp(alt)):
                        out += [("store", k_, v_) for k_, v_ in _dp(alt)]  # update({k: v}) is a store under k
                    else:
                        out.append(("call", None, alt))
    for s_ in (subterms(o.value) if o.value is not None else ()):
        if isinstance(s_, App) and s_.op in ("comp:list", "comp:gen", "comp:set") and len(s_.args) == 3:
            out.append(("comp", None, s_.args[0]))
        if isinstance(s_, App) and s_.op == "comp:dict" and len(s_.args) == 3 and isinstance(s_.args[0], App) and s_.args[0].op == "kv":
            out.append(("store", s_.args[0].args[0], s_.args[0].args[1]))
    return out


def lookup_attribute_facts(ctx, rid):
    """C08-d / C02-D3: which attribute selects the metadata entry in each direction, and which is emitted."""
    R = ctx.report
    repo = ctx.repo

    # _get_method_and_name(key, attribute="id"): compares getattr(k, attribute) with key over _metadata.map
    fi, outs = _outs(ctx, "SuitKeyValue._get_method_and_name")
    rets = [o for o in outs if o.kind == "return"]
    ok = False
    # the entry may be selected by a comprehension over the map (conditions of the comprehension) or by a loop over the map that
    # returns the first match (path conditions of the return inside the loop): the same selection conditions either way
    in_loop = []
    for o in rets:
        for i_, c_ in enumerate(o.conds):
            if isinstance(c_, App) and c_.op == "inloop" and contains(c_.args[0], lambda u: isinstance(u, App) and u.op == "attr:map"):
                in_loop.append(list(o.conds[i_ + 1:]))
    for o in rets:
        for s in [x for x in subterms(o.value)] + [x for c_ in o.conds for x in subterms(c_)]:
            if isinstance(s, App) and s.op == "==" and any(
                    isinstance(x, App) and x.op == "call:getattr" and x.args[-1] == Sym("param:attribute") for x in s.args) \
                    and any(x == Sym("param:key") for x in s.args):
                ok = True
    iter_map = any(contains(o.value, lambda s: isinstance(s, App) and s.op == "attr:map") for o in rets) or bool(in_loop)
    R.check(rid, ok and iter_map, "generic lookup compares getattr(entry key, attribute) with the wanted key over the node's own map",
            node=fi.node, function=ctx.fq(fi), mod=fi.module,
            expected="[k, v] for k, v in cls._metadata.map.items() if getattr(k, attribute) == key",
            found="comparison of getattr(k, attribute) with key not found")
    # the selection is total over the table: no additional filter hides an entry (or every key class passes it)
    comps = [s for o in rets for s in subterms(o.value) if isinstance(s, App) and s.op in ("comp:list", "comp:gen") and len(s.args) == 3
             and contains(s.args[1], lambda u: isinstance(u, App) and u.op == "attr:map")]
    selections = [list(c_.args[2].args) for c_ in comps[:1]] or in_loop[:1]
    if not selections:
        raise AnalysisError("SuitKeyValue._get_method_and_name: selection over the map not recognised")
    def conjuncts(c):
        if isinstance(c, App) and c.op == "and":
            out = []
            for x in c.args:
                out += conjuncts(x)
            return out
        return [c]
    for sel_ in selections:
        for c in [x for c0 in sel_ for x in conjuncts(c0)]:
            is_eq = isinstance(c, App) and c.op == "==" and any(isinstance(x, App) and x.op == "call:getattr" for x in c.args)
            if is_eq:
                continue
            if isinstance(c, App) and c.op in ("call:issubclass", "issubclass") and len(c.args) == 2 and isinstance(c.args[1], Ref) and c.args[1].kind == "class":
                base = c.args[1].obj
                S = ctx.schema
                missing = set()
                for mi in S.meta.values():
                    for k, v in mi.map or []:
                        kc = getattr(k, "cls", None)
                        if kc is not None and hasattr(k, "name") and base not in repo.mro(kc):
                            missing.add(kc.name)
                R.check(rid, not missing, f"every key class of every table passes the additional filter issubclass(k, {base.name})",
                        node=fi.node, function=ctx.fq(fi), mod=fi.module, expected="no entry of a table is hidden from the lookup",
                        found=f"{sorted(missing)} not derived from {base.name}: their names and codes are no longer found", key_extra="filter")
                continue
            raise AnalysisError(f"SuitKeyValue._get_method_and_name: additional selection condition not understood: {c!r}"[:200])
    # any test of a key against the key base class, anywhere in the generic module, must hold for every key class of every table:
    # a key class outside the hierarchy would silently take the other branch (dropped when encoding, mis-rendered when parsing)
    S = ctx.schema
    key_classes = {}
    for mi in S.meta.values():
        for k, v in mi.map or []:
            kc = getattr(k, "cls", None)
            if kc is not None and hasattr(k, "name"):
                key_classes[kc.fq] = kc
    common_mod = repo.mod(COMMON)
    for f_ in common_mod.functions.values():
        for n_ in ast.walk(f_.node):
            if isinstance(n_, ast.Call) and isinstance(n_.func, ast.Name) and n_.func.id in ("issubclass", "isinstance") and len(n_.args) == 2:
                r_ = repo.resolve_expr(common_mod, n_.args[1])
                if not (r_ and r_[0] == "class" and r_[1].module.name.endswith(".keys")):
                    continue
                base = r_[1]
                if f_.qualname.endswith("_get_method_and_name"):
                    continue  # handled above with the selection itself
                missing = sorted(kc.name for kc in key_classes.values() if base not in repo.mro(kc))
                R.check(rid, not missing, f"{ctx.fq(f_)}: every key class passes {n_.func.id}(k, {base.name})", node=n_, function=ctx.fq(f_), mod=common_mod,
                        expected="all key classes of all tables are treated alike by the generic code",
                        found=f"{missing} not derived from {base.name}: these entries take the other branch", key_extra=f_.qualname + "hier")
    default = None
    a = fi.node.args
    names = [x.arg for x in a.args]
    if "attribute" in names and a.defaults:
        d = a.defaults[-1]
        default = d.value if isinstance(d, ast.Constant) else None
    # no default at all is as good: every call then names the attribute itself (checked per call site below)
    has_default = bool(a.defaults) or any(d_ is not None for d_ in a.kw_defaults)
    R.check(rid, default == "id" or not has_default, "default lookup attribute of the generic key-value node is the code",
            node=fi.node, function=ctx.fq(fi), mod=fi.module, expected="attribute='id'", found=f"default {default!r}")

    keys_looked_up = {}

    def lookup_attr_used(qual):
        fi, outs = _outs(ctx, qual)
        found = set()
        for o in outs:
            terms = list(o.conds) + list(all_effects(o.effects)) + ([o.value] if o.value is not None else [])
            for t in terms:
                for s in subterms(t):
                    if isinstance(s, App) and s.op == "call" and isinstance(s.args[0], Ref) and s.args[0].kind == "func" \
                            and s.args[0].obj.name == "_get_method_and_name":
                        args = s.args[2:]  # after func, cls
                        attr = args[1] if len(args) > 1 else Const(default)
                        for kw in args:
                            if isinstance(kw, App) and kw.op == "kw" and kw.args[0] in [Const("attribute")] + [Const(k_) for k_, v_ in getattr(s.args[0].obj, "kw_alias", {}).items() if v_ == "attribute"]:
                                attr = kw.args[1]
                        found.add(attr.v if isinstance(attr, Const) else repr(attr))
                        if args and not (isinstance(args[0], App) and args[0].op == "kw"):
                            keys_looked_up.setdefault(qual, []).append(args[0])
        return fi, found

    for qual, want in (("SuitKeyValue.from_obj", "name"), ("SuitKeyValue.from_cbor", "id"),
                       ("SuitKeyValueTuple.from_cbor", "id")):
        fi, found = lookup_attr_used(qual)
        if not found:
            R.fail(rid, f"{qual} selects the entry by {want}", node=fi.node, function=ctx.fq(fi), mod=fi.module,
                   expected=f"the entry is looked up in the node's own table (cls._get_method_and_name(key, {want!r}))",
                   found="no lookup in the node's own table: a name / code resolved elsewhere is not confined to this key space")
            continue
        R.check(rid, found == {want}, f"{qual} selects the entry by {want}", node=fi.node, function=ctx.fq(fi),
                mod=fi.module, expected=f"lookup attribute {want!r}", found=f"lookup attribute(s) {sorted(found)}")
        # the key that is looked up is the key of the item itself: a key that is rewritten first (case folding, stripping, a
        # conversion) is compared with registered names / codes it was never spelled as - entries whose registered spelling the
        # rewriting does not produce can no longer be named, others gain spellings that collide
        changed = [k_ for k_ in keys_looked_up.get(qual, []) if any(
            isinstance(u, App) and (u.op.startswith("meth:") and u.op not in ("meth:items", "meth:keys", "meth:values", "meth:get")
                                    or u.op in ("call:str", "call:int", "call:repr", "fmt", "cat", "call:bytes")) for u in subterms(k_))]
        R.check(rid, not changed, f"{qual} looks up the key as it is given", node=fi.node, function=ctx.fq(fi), mod=fi.module,
                expected=f"the {want} compared with the table is the item's own key, unmodified",
                found=f"the key is rewritten before the lookup: {repr(changed[0])[:200]}" if changed else "", key_extra=qual + "rawkey")

    # unknown name is rejected: from_obj has a raise ValueError guarded by the failed lookup
    fi, outs = _outs(ctx, "SuitKeyValue.from_obj")
    def _lookup_failed(c):
        # the lookup result is falsy / is None: `not r`, `r is None`, `r == None`, `not (r is not None)`
        if not (isinstance(c, App) and _has_call(c, "_get_method_and_name")):
            return False
        if c.op == "not":
            inner = c.args[0]
            return not (isinstance(inner, App) and inner.op in ("is", "==") and Const(None) in inner.args)
        return c.op in ("is", "==") and Const(None) in c.args
    rej = [o for o in outs if o.kind == "raise" and any(_lookup_failed(c) for c in o.conds)]
    R.check(rid, bool(rej) and all(_exc_name(o) == "ValueError" for o in rej),
            "a name outside the node's own table is rejected with ValueError (closed key space)",
            node=fi.node, function=ctx.fq(fi), mod=fi.module,
            expected="raise ValueError on the path where the lookup by name fails",
            found="no such raising path" if not rej else f"raises {[_exc_name(o) for o in rej]}")

    # encode side: the map key / pair head written is the entry's id
    for qual in ("SuitKeyValue.to_cbor", "SuitKeyValueTuple.to_cbor"):
        fi, outs = _outs(ctx, qual)
        keys = []
        for o in outs:
            for kind_, k_, v_ in container_puts(o):
                if kind_ == "store":
                    keys.append(k_)
                elif qual.startswith("SuitKeyValueTuple"):
                    keys.append(v_)
        keyterms = [k for k in keys if _attr_ops(k) & {"attr:id", "attr:name"}]
        if not keyterms:
            raise AnalysisError(f"{qual}: no store keyed by an entry attribute recognised")
        bad = [k for k in keyterms if "attr:name" in _attr_ops(k) or not _iter_self_value(k)]
        R.check(rid, not bad, f"{qual} writes the registered code of each entry of the instance value",
                node=fi.node, function=ctx.fq(fi), mod=fi.module, expected="key written = <entry key>.id",
                found=f"key terms {[repr(k)[:80] for k in bad]}")

    # decode/describe side: to_obj renders k.name
    fi, outs = _outs(ctx, "SuitKeyValue.to_obj")
    stores = [e for o in outs for e in all_effects(o.effects) if isinstance(e, App) and e.op == "eff:store"]
    if not stores:
        raise AnalysisError("SuitKeyValue.to_obj: no store recognised")
    good = any("attr:name" in _attr_ops(e.args[1]) and "attr:id" not in _attr_ops(e.args[1]) for e in stores)
    R.check(rid, good, "SuitKeyValue.to_obj renders each entry under its symbolic name", node=fi.node,
            function=ctx.fq(fi), mod=fi.module, expected="obj[k.name] = v.to_obj()",
            found=f"{[repr(e.args[1])[:100] for e in stores]}")


def _has_call(t, fname):
    return contains(t, lambda s: isinstance(s, App) and s.op == "call" and isinstance(s.args[0], Ref)
                    and s.args[0].kind == "func" and s.args[0].obj.name == fname)


def _exc_name(o):
    v = o.value
    if isinstance(v, App) and v.op.startswith("call:"):
        return v.op.split(":", 1)[1].split(".")[-1]
    if isinstance(v, App) and v.op == "new" and isinstance(v.args[0], Ref):
        return v.args[0].obj.name
    if isinstance(o.node, ast.Raise) and o.node.exc is not None:
        f = o.node.exc.func if isinstance(o.node.exc, ast.Call) else o.node.exc
        return ast.unparse(f).split(".")[-1]
    return "?"


def enum_facts(ctx, rid):
    """SuitEnum: membership by name over children; id<->name conversion uses the same children list."""
    R = ctx.report
    fi, outs = _outs(ctx, "SuitEnum.__init__")
    rej = [o for o in outs if o.kind == "raise"]
    ok = False
    for o in rej:
        for c, pol in norm_guards([(c_, True) for c_ in conjuncts(o.conds)]):
            if isinstance(c, App) and c.op == "in" and not pol and c.args[0] == Sym("param:value") \
                    and "attr:name" in _attr_ops(c.args[1]) and "attr:children" in _attr_ops(c.args[1]) \
                    and "attr:id" not in _attr_ops(c.args[1]):
                ok = _exc_name(o) == "ValueError"
            # the same test as a scan: not any(child.name == value for child in <children>)
            if isinstance(c, App) and c.op == "call:any" and not pol and len(c.args) == 1 and isinstance(c.args[0], App) and c.args[0].op in ("comp:gen", "comp:list") \
                    and len(c.args[0].args) == 3 and not c.args[0].args[2].args and "attr:children" in _attr_ops(c.args[0].args[1]):
                body_ = c.args[0].args[0]
                if isinstance(body_, App) and body_.op == "==" and Sym("param:value") in body_.args and any(
                        "attr:name" in _attr_ops(x_) and "attr:id" not in _attr_ops(x_) for x_ in body_.args if x_ != Sym("param:value")):
                    ok = _exc_name(o) == "ValueError"
    R.check(rid, ok, "enum node rejects every name outside its own children list with ValueError", node=fi.node,
            function=ctx.fq(fi), mod=fi.module,
            expected="if value not in [i.name for i in self._metadata.children]: raise ValueError",
            found="guard not recognised" if not ok else "")

    fi, outs = _outs(ctx, "SuitEnum.to_cbor")
    rets = [o for o in outs if o.kind == "return"]
    ok = False
    for o in rets:
        v = o.value
        # serialize(<selected child>.id) where selection compares .name with self.value
        ser = [s for s in subterms(v) if isinstance(s, App) and s.op == "call" and isinstance(s.args[0], Ref)
               and s.args[0].obj.name == "serialize_cbor"]
        for s in ser:
            arg = s.args[-1]
            if isinstance(arg, App) and arg.op == "attr:id":
                sel = arg.args[0]
                cmp_ok = contains(sel, lambda u: isinstance(u, App) and u.op == "==" and any(
                    isinstance(x, App) and x.op == "attr:name" for x in u.args) and any(
                    isinstance(x, App) and x.op == "attr:value" for x in u.args))
                ok = ok or cmp_ok
    R.check(rid, ok, "enum node encodes the id of the child whose name equals the value", node=fi.node,
            function=ctx.fq(fi), mod=fi.module, expected="serialize(child.id) for child.name == self.value",
            found="shape not recognised")

    fi, outs = _outs(ctx, "SuitEnum.from_cbor")
    rets = [o for o in outs if o.kind == "return"]
    ok = False
    for o in rets:
        for s in subterms(o.value):
            if isinstance(s, App) and s.op == "attr:name":
                sel = s.args[0]
                if contains(sel, lambda u: isinstance(u, App) and u.op == "==" and any(
                        isinstance(x, App) and x.op == "attr:id" for x in u.args) and any(
                        _has_call(x, "deserialize_cbor") for x in u.args)):
                    ok = True
    rej = [o for o in outs if o.kind == "raise"]
    R.check(rid, ok and bool(rej) and all(_exc_name(o) == "ValueError" for o in rej),
            "enum node decodes an id to the name of the child with that id and rejects unknown ids with ValueError",
            node=fi.node, function=ctx.fq(fi), mod=fi.module,
            expected="cls(child.name) for child.id == decoded; else ValueError", found="shape not recognised")


def tag_facts(ctx, rid):
    R = ctx.report
    fi, outs = _outs(ctx, "SuitTag.to_cbor")
    ok = False
    for o in outs:
        if o.kind == "return":
            for s in subterms(o.value):
                if isinstance(s, App) and s.op == "tag":
                    t = s.args[0]
                    if isinstance(t, App) and t.op == "attr:value" and "attr:tag" in _attr_ops(t) \
                            and "attr:_metadata" in _attr_ops(t):
                        ok = True
    R.check(rid, ok, "tag node emits the tag number declared in its metadata", node=fi.node, function=ctx.fq(fi),
            mod=fi.module, expected="CBORTag(self._metadata.tag.value, ...)", found="tag number has another source")
    fi, outs = _outs(ctx, "SuitTag.from_cbor")
    rej = [o for o in outs if o.kind == "raise"]
    ok = False
    for o in rej:
        for c in o.conds:
            if contains(c, lambda u: isinstance(u, App) and u.op == "!=" and any(
                    "attr:_metadata" in _attr_ops(x) and isinstance(x, App) and x.op == "attr:value" for x in u.args)
                    and any(isinstance(x, App) and x.op == "attr:tag" and "attr:_metadata" not in _attr_ops(x)
                            for x in u.args)):
                ok = True
    R.check(rid, ok, "tag node rejects input whose tag number differs from its metadata", node=fi.node,
            function=ctx.fq(fi), mod=fi.module, expected="cls._metadata.tag.value != cbor.tag -> raise",
            found="comparison not recognised")
    for qual, what in (("SuitTag.to_obj", "emits"), ("SuitTag.from_obj", "reads")):
        fi, outs = _outs(ctx, qual)
        ok = False
        for o in outs:
            terms = list(o.conds) + ([o.value] if o.value is not None else [])
            for t in terms:
                if contains(t, lambda u: isinstance(u, App) and u.op == "attr:name" and "attr:tag" in _attr_ops(u)):
                    ok = True
        R.check(rid, ok, f"tag node {what} its description under the metadata tag name", node=fi.node,
                function=ctx.fq(fi), mod=fi.module, expected="_metadata.tag.name", found="not recognised")


def serializer_options(ctx, rid, modnames, floor, why):
    """Every cbor2.dump / dumps in the named modules is called with the default encoder options: canonical=True, a custom default
    or datetime options re-order map keys / re-encode values of data that must be passed through unchanged."""
    from sa.index import walk_no_nested
    R = ctx.report
    repo = ctx.repo
    R.rule(rid, floor, "cbor2.dump(s) is called without options (definite lengths, non-canonical, key order kept)")
    n_sites = 0
    for mname in modnames:
        m = repo.mod(mname)
        for f in m.functions.values():
            for n in walk_no_nested(f.node):
                if not isinstance(n, ast.Call):
                    continue
                r = repo.resolve_expr(m, n.func)
                if not (r and r[0] == "ext" and r[1] in ("cbor2.dump", "cbor2.dumps", "cbor2.encoder.dump", "cbor2.encoder.dumps")):
                    continue
                n_sites += 1
                want = 2 if r[1].endswith("dump") else 1
                kws = [k.arg or "**" for k in n.keywords]
                R.check(rid, not kws and len(n.args) == want and not any(isinstance(a, ast.Starred) for a in n.args),
                        f"{ctx.fq(f)}: {ast.unparse(n)[:60]}", mod=m, node=n, function=ctx.fq(f),
                        expected=f"default encoder options: {why}", found=f"options {kws or 'extra positional arguments'}",
                        key_extra=ast.unparse(n.func))
    if n_sites < floor:
        raise AnalysisError(f"only {n_sites} cbor2.dump(s) sites found in {modnames} (resolver lost them)")


def key_file_rule(ctx, rid, impl, method, name_param="key_name", dir_attr="keys_directory"):
    """Key material is read from one file per call, <self.keys_directory>/<key name><constant suffix>: the file name is an
    injective function of the key name (no with_suffix / strip / lower, which map different names to one file) and every read of
    the call uses the same path (type check and use cannot look at different files; nothing is resolved against the working directory)."""
    from sa.absint import Evaluator as _Ev
    R = ctx.report
    fi = ctx.repo.lookup_method(impl, method)
    if fi is None:
        raise AnalysisError(f"{impl.name}.{method} vanished")
    fq = ctx.fq(fi)
    ev = _Ev(ctx.repo, inline_depth=1)
    paths = []
    for o in ev.outcomes(fi):
        for e in all_effects(o.effects):
            for s in subterms(e):
                if isinstance(s, App) and s.op in ("filebytes", "open", "eff:open") and s.args:
                    p = s.args[0]
                    if isinstance(p, App) and p.op == "open":
                        p = p.args[0]
                    if p not in paths:
                        paths.append(p)
    if not paths:
        raise AnalysisError(f"{fq}: no key file read recognised")
    name = Sym("param:" + name_param)

    def file_part_ok(t, under_cond=False):
        if t == name:
            return True
        if isinstance(t, Const):
            return isinstance(t.v, str)
        if isinstance(t, App) and t.op == "cat":
            return all(file_part_ok(x) for x in t.args)
        if isinstance(t, App) and t.op == "phi":
            return file_part_ok(t.args[1]) and file_part_ok(t.args[2])  # the condition only selects between constant suffixes
        return False

    def rooted(p):
        return isinstance(p, App) and p.op == "/" and len(p.args) == 2 and isinstance(p.args[0], App) and p.args[0].op == "attr:" + dir_attr \
            and p.args[0].args[0] == Sym("param:self") and contains(p.args[1], lambda s: s == name) and file_part_ok(p.args[1])
    for p in paths:
        R.check(rid, rooted(p), f"{fq}: {repr(p)[:90]}", mod=fi.module, node=fi.node, function=fq,
                expected=f"self.{dir_attr} / ({name_param} + <constant suffix>)", found=repr(p)[:200], key_extra=repr(p)[:80])
    R.check(rid, len(paths) == 1, f"{fq}: one key file per call", mod=fi.module, node=fi.node, function=fq,
            expected="every read of the key uses the same path", found=f"{len(paths)} different paths: {[repr(p)[:80] for p in paths]}")


def _kw_with_star(keywords):
    kw = {k.arg: k.value for k in keywords if k.arg}
    stars = [k.value for k in keywords if k.arg is None]
    if stars:
        kw["**"] = ast.Tuple(elts=stars, ctx=ast.Load())
    return kw


def _literal_kwargs(repo, m, f, e, _depth=0):
    """{keyword: AST} for an expression used as **e in a call: a dict literal, dict(k=v, ...), a name bound once to one (local or
    module level), the literal returned by a parameterless function of the module, or such a mapping indexed by a constant key."""
    if _depth > 4:
        return None
    if isinstance(e, ast.Dict):
        if all(isinstance(k, ast.Constant) and isinstance(k.value, str) for k in e.keys):
            return {k.value: v for k, v in zip(e.keys, e.values)}
        return None
    if isinstance(e, ast.Call) and isinstance(e.func, ast.Name) and e.func.id == "dict" and not e.args and all(k.arg for k in e.keywords):
        return {k.arg: k.value for k in e.keywords}
    table = _literal_table(repo, m, f, e, _depth)
    return _literal_kwargs(repo, m, f, table, _depth + 1) if table is not None and table is not e else None


def _literal_table(repo, m, f, e, _depth=0):
    """The literal an expression denotes: name -> its single binding, f() -> the literal f returns, table[const] -> that entry."""
    from sa.index import walk_no_nested
    if isinstance(e, (ast.Dict, ast.Tuple, ast.List)):
        return e
    if isinstance(e, ast.Name):
        binds = [n_.value for n_ in walk_no_nested(f.node) if isinstance(n_, ast.Assign) and len(n_.targets) == 1
                 and isinstance(n_.targets[0], ast.Name) and n_.targets[0].id == e.id]
        if len(binds) == 1:
            return _literal_table(repo, m, f, binds[0], _depth + 1)
        if not binds and e.id in m.assigns:
            return _literal_table(repo, m, f, m.assigns[e.id], _depth + 1)
        return None
    if isinstance(e, ast.Call) and isinstance(e.func, ast.Name) and not e.args and not e.keywords and e.func.id in m.functions:
        g = m.functions[e.func.id]
        rets = [n_ for n_ in walk_no_nested(g.node) if isinstance(n_, ast.Return)]
        if len(rets) == 1 and rets[0].value is not None:
            return _literal_table(repo, m, g, rets[0].value, _depth + 1)
        return None
    if isinstance(e, ast.Subscript) and isinstance(e.slice, ast.Constant):
        t = _literal_table(repo, m, f, e.value, _depth + 1)
        if isinstance(t, ast.Dict):
            for k, v in zip(t.keys, t.values):
                if isinstance(k, ast.Constant) and k.value == e.slice.value:
                    return v
        if isinstance(t, (ast.Tuple, ast.List)) and isinstance(e.slice.value, int) and -len(t.elts) <= e.slice.value < len(t.elts):
            return t.elts[e.slice.value]
        return None
    return None


class _TypeOfMember(ast.NodeTransformer):
    """type(<Enum class>.<member>) is the Enum class."""

    def __init__(self, repo, m):
        self.repo, self.m = repo, m

    def visit_Call(self, node):
        self.generic_visit(node)
        if isinstance(node.func, ast.Name) and node.func.id == "type" and len(node.args) == 1 and not node.keywords \
                and isinstance(node.args[0], ast.Attribute):
            r = self.repo.resolve_expr(self.m, node.args[0].value)
            if r and r[0] == "class" and node.args[0].attr in r[1].attrs:
                return node.args[0].value
        return node


def cli_registrations(repo, m):
    """[(function, add_argument call node, positional arg ASTs, {keyword: AST})] for every option a command module registers: direct
    `parser.add_argument(...)` calls, calls through `functools.partial(parser.add_argument, **common)`, and calls inside a helper
    function of the module - one registration per call of the helper, with the helper's parameters replaced by the arguments of
    that call (so that a flag or a default handed to the helper is seen as written at the call site)."""
    from sa.index import walk_no_nested
    out = []

    class Subst(ast.NodeTransformer):
        def __init__(self, mapping):
            self.mapping = mapping

        def visit_Name(self, node):
            return self.mapping.get(node.id, node) if isinstance(node.ctx, ast.Load) else node

    def helper_calls(f):
        """Calls of the helper f in the module; a call inside `for <names> in <literal table>` counts once per row, with the loop
        names in its arguments replaced by the row's items."""
        import copy as _copy
        calls = []
        for g in m.functions.values():
            if g is f:
                continue
            parents = {}
            for p_ in ast.walk(g.node):
                for ch_ in ast.iter_child_nodes(p_):
                    parents[ch_] = p_
            for n_ in walk_no_nested(g.node):
                if isinstance(n_, ast.Call) and ((isinstance(n_.func, ast.Name) and n_.func.id == f.name) or (
                        isinstance(n_.func, ast.Attribute) and n_.func.attr == f.name)):
                    combos = [{}]
                    q_ = parents.get(n_)
                    while q_ is not None and q_ is not g.node:
                        if isinstance(q_, ast.For):
                            it = _literal_table(repo, m, g, q_.iter)
                            rows = []
                            if isinstance(it, (ast.Tuple, ast.List)):
                                for row in it.elts:
                                    if isinstance(q_.target, ast.Name):
                                        rows.append({q_.target.id: row})
                                    elif isinstance(q_.target, (ast.Tuple, ast.List)) and isinstance(row, (ast.Tuple, ast.List)) \
                                            and len(row.elts) == len(q_.target.elts) and all(isinstance(t_, ast.Name) for t_ in q_.target.elts):
                                        rows.append({t_.id: v_ for t_, v_ in zip(q_.target.elts, row.elts)})
                            if rows:
                                combos = [{**c0, **r_} for c0 in combos for r_ in rows]
                        q_ = parents.get(q_)
                    for mp_ in combos:
                        cn_ = Subst(mp_).visit(_copy.deepcopy(n_)) if mp_ else _copy.copy(n_)
                        cn_._caller = g
                        calls.append(cn_)
        return calls

    def through_callers(call, depth=0):
        """The call as seen from the outermost caller: when it sits in a helper that is itself called with arguments, the helper's
        parameters in the call's arguments are replaced by those arguments (one variant per call of that helper)."""
        import copy as _copy
        g = getattr(call, "_caller", None)
        if g is None or g.name == "add_arguments" or depth >= 3:
            return [call]
        gp = g.params()
        names = {x.id for a_ in list(call.args) + [k.value for k in call.keywords] for x in ast.walk(a_) if isinstance(x, ast.Name)}
        if not (names & set(gp)):
            return [call]
        outer = helper_calls(g)
        if not outer:
            return [call]
        res = []
        for oc in outer:
            mp_ = {p_: a_ for p_, a_ in zip(gp, oc.args)}
            mp_.update({k.arg: k.value for k in oc.keywords if k.arg})
            c2 = Subst(mp_).visit(_copy.deepcopy(call))
            c2._caller = getattr(oc, "_caller", None)
            res.extend(through_callers(c2, depth + 1))
        return res

    for f in m.functions.values():
        partials = {}  # local name -> (pos ASTs, kw ASTs) bound by functools.partial(<x>.add_argument, ...)
        for n_ in walk_no_nested(f.node):
            if isinstance(n_, ast.Assign) and len(n_.targets) == 1 and isinstance(n_.targets[0], ast.Name) and isinstance(n_.value, ast.Call) \
                    and ast.unparse(n_.value.func).split(".")[-1] == "partial" and n_.value.args and isinstance(n_.value.args[0], ast.Attribute) \
                    and n_.value.args[0].attr == "add_argument":
                partials[n_.targets[0].id] = (list(n_.value.args[1:]), {k.arg: k.value for k in n_.value.keywords if k.arg}, n_.value.args[0].value)
        own = []
        # a call inside `for <names> in <literal table>` (or a local / module name bound to one) is one registration per row, with the
        # loop names replaced by the row's items
        local_tables = {n_.targets[0].id: n_.value for n_ in walk_no_nested(f.node) if isinstance(n_, ast.Assign) and len(n_.targets) == 1
                        and isinstance(n_.targets[0], ast.Name) and isinstance(n_.value, (ast.Tuple, ast.List))}

        def rows_of(loop):
            it = loop.iter
            if isinstance(it, ast.Name):
                it = local_tables.get(it.id) or (m.assigns.get(it.id) if hasattr(m, "assigns") else None)
            if not isinstance(it, (ast.Tuple, ast.List)):
                return None
            rows = []
            for row in it.elts:
                if isinstance(loop.target, ast.Name):
                    rows.append({loop.target.id: row})
                elif isinstance(loop.target, (ast.Tuple, ast.List)) and isinstance(row, (ast.Tuple, ast.List)) and len(row.elts) == len(loop.target.elts) \
                        and all(isinstance(t_, ast.Name) for t_ in loop.target.elts):
                    rows.append({t_.id: v_ for t_, v_ in zip(loop.target.elts, row.elts)})
                else:
                    return None
            return rows
        par_ = {}
        for p_ in ast.walk(f.node):
            for ch_ in ast.iter_child_nodes(p_):
                par_[ch_] = p_

        def variants(c, pos, kw, recv):
            loops_ = []
            q_ = par_.get(c)
            while q_ is not None and q_ is not f.node:
                if isinstance(q_, ast.For):
                    loops_.append(q_)
                q_ = par_.get(q_)
            combos = [{}]
            for lp in loops_:
                rows = rows_of(lp)
                if rows is None:
                    continue
                combos = [{**c0, **r_} for c0 in combos for r_ in rows]
            import copy as _copy
            for mp_ in combos:
                if not mp_:
                    yield c, pos, kw, recv
                else:
                    yield (c, [Subst(mp_).visit(_copy.deepcopy(t)) for t in pos], {k: Subst(mp_).visit(_copy.deepcopy(v)) for k, v in kw.items()},
                           Subst(mp_).visit(_copy.deepcopy(recv)))
        for c in walk_no_nested(f.node):
            if not isinstance(c, ast.Call):
                continue
            if isinstance(c.func, ast.Attribute) and c.func.attr == "add_argument":
                own.extend(variants(c, list(c.args), _kw_with_star(c.keywords), c.func.value))
            elif isinstance(c.func, ast.Name) and c.func.id in partials:
                ppos, pkw, precv = partials[c.func.id]
                own.extend(variants(c, ppos + list(c.args), {**pkw, **_kw_with_star(c.keywords)}, precv))
        if not own:
            continue
        params = f.params()
        uses_params = any(isinstance(x, ast.Name) and x.id in params[1:] for _, pos, kw, _r in own for t in pos + list(kw.values()) for x in ast.walk(t))
        calls = [c2 for c1 in (helper_calls(f) if (f.name != "add_arguments") else []) for c2 in through_callers(c1)]
        if calls and (uses_params or True):
            for call in calls:
                mapping = {}
                for i_, a_ in enumerate(call.args):
                    if i_ < len(params):
                        mapping[params[i_]] = a_
                for k_ in call.keywords:
                    if k_.arg:
                        mapping[k_.arg] = k_.value
                # defaults of the helper's own parameters
                dflt = f.node.args.defaults
                for nm, d_ in zip(params[len(params) - len(dflt):], dflt):
                    mapping.setdefault(nm, d_)
                # locals of the helper assigned once from its parameters (enum_class = type(default)) are written out first
                assigned = {}
                for n_ in walk_no_nested(f.node):
                    if isinstance(n_, ast.Assign) and len(n_.targets) == 1 and isinstance(n_.targets[0], ast.Name):
                        assigned.setdefault(n_.targets[0].id, []).append(n_.value)
                locals1 = {k_: v_[0] for k_, v_ in assigned.items() if len(v_) == 1 and k_ not in params and k_ not in partials}

                def expand(t):
                    import copy as _copy
                    t = _copy.deepcopy(t)
                    for _ in range(2):
                        t = Subst({k_: _copy.deepcopy(v_) for k_, v_ in locals1.items()}).visit(t)
                    return _TypeOfMember(repo, m).visit(Subst(mapping).visit(t))
                import copy as _copy2
                for c, pos, kw, recv in own:
                    # the receiver keeps its name (a parser created inside the helper is known by the variable it is bound to)
                    out.append((f, c, [expand(t) for t in pos], {k: expand(v) for k, v in kw.items()}, Subst(mapping).visit(_copy2.deepcopy(recv))))
        else:
            for c, pos, kw, recv in own:
                out.append((f, c, pos, kw, recv))
    # keyword arguments handed over as **<table entry>: written out when the entry is a dict literal that can be located
    done = []
    for f, c, pos, kw, recv in out:
        if "**" in kw:
            kw = dict(kw)
            stars = kw.pop("**").elts
            for e_ in stars:
                d_ = _literal_kwargs(repo, m, f, e_)
                if d_ is None:
                    raise AnalysisError(f"{m.name}:{f.qualname}: keyword arguments of add_argument given as **{ast.unparse(e_)[:60]} cannot be "
                                        f"located statically (line {c.lineno})")
                kw = {**d_, **kw}
        done.append((f, c, pos, kw, recv))
    return done


def cli_converters(ctx, rid, modname, floor):
    """argparse `type=` converters of a command module: a numeric option must denote the number the user wrote (int, or int(x, 0)
    which honours the 0x / 0o / 0b prefix); a fixed other base silently reads the same digits as another number.  The same option
    of sibling sub-commands must be converted the same way (Engler-style sibling contradiction).  A default taken from an attribute
    named default_<x> belongs to the option <x> (belief rule: the names say which default is meant)."""
    R = ctx.report
    repo = ctx.repo
    m = repo.mod(modname)
    R.rule(rid, floor, "type= converters: int / int(x, 0) / str / Path / enum classes; siblings agree; default_<x> feeds option <x>")
    seen = {}
    n = 0
    for f, c, pos, kws, _recv in cli_registrations(repo, m):
        flags = [a.value for a in pos if isinstance(a, ast.Constant) and isinstance(a.value, str)]
        if not flags:
            continue
        dest = kws["dest"].value if "dest" in kws and isinstance(kws["dest"], ast.Constant) else (
            ([fl for fl in flags if fl.startswith("--")] or flags)[0].lstrip("-").replace("-", "_"))
        d = kws.get("default")
        dname = d.attr if isinstance(d, ast.Attribute) else (d.id if isinstance(d, ast.Name) else None)
        if dname and dname.lower().startswith("default_") and len(dname) > 8:
            what = dname[8:].lower()
            rid_d = rid
            agree = what == dest or what.endswith("_" + dest) or dest.endswith("_" + what) or what.endswith(dest) or dest.endswith(what)
            if not agree:
                R.fail(rid_d, f"{ctx.fq(f)}: {flags[0]} default", mod=m, node=c, function=ctx.fq(f), expected=f"the default of {flags[0]} is the one named after it (default_{dest})",
                       found=f"default={ast.unparse(d)}: the default of another option", key_extra=flags[0] + "|default")
        tk = kws.get("type")
        if tk is None:
            continue
        n += 1
        ok, found = False, ast.unparse(tk)
        if isinstance(tk, (ast.Name, ast.Attribute)):
            r = repo.resolve_expr(m, tk)
            ok = bool(r) and ((r[0] == "builtin" and r[1] in ("int", "str", "float")) or (r[0] == "ext" and r[1] in ("pathlib.Path", "int", "str"))
                              or r[0] == "class")
            if not ok and r and r[0] == "func":
                # a named converter function: its body must be int(x) / int(x, 0)
                body = [b_ for b_ in r[1].node.body if not (isinstance(b_, ast.Expr) and isinstance(b_.value, ast.Constant))]
                if len(body) == 1 and isinstance(body[0], ast.Return) and len(r[1].params()) == 1:
                    tk = ast.Lambda(args=r[1].node.args, body=body[0].value)
            if not ok and isinstance(tk, ast.Name):
                # a name bound once, at module level or in this function, to a lambda: the converter is that lambda
                binds = [a_.value for a_ in list(m.tree.body) + list(ast.walk(f.node)) if isinstance(a_, ast.Assign) and len(a_.targets) == 1
                         and isinstance(a_.targets[0], ast.Name) and a_.targets[0].id == tk.id]
                if len(binds) == 1 and isinstance(binds[0], ast.Lambda):
                    tk = binds[0]
        if isinstance(tk, ast.Lambda) and len(tk.args.args) == 1:
            x = tk.args.args[0].arg
            b = tk.body
            if isinstance(b, ast.Call) and isinstance(b.func, ast.Name) and b.func.id == "int" and b.args and isinstance(b.args[0], ast.Name) \
                    and b.args[0].id == x and not b.keywords:
                base = b.args[1] if len(b.args) > 1 else None
                ok = base is None or (isinstance(base, ast.Constant) and base.value in (0, 10))
                if not ok:
                    found = f"int(x, {ast.unparse(base)}): the digits the user wrote are read in a fixed other base"
        R.check(rid, ok, f"{ctx.fq(f)}: {flags[0]}", mod=m, node=c, function=ctx.fq(f), expected="int / lambda x: int(x, 0) / str / Path / enum class",
                found=found, key_extra=flags[0])
        norm = ast.dump(tk)
        for fl in flags:
            if fl in seen and seen[fl][0] != norm:
                R.fail(rid, f"{ctx.fq(f)}: {fl} converted differently by sibling sub-commands", mod=m, node=c, function=ctx.fq(f),
                       expected=f"{fl}: {seen[fl][1]} everywhere", found=ast.unparse(tk), key_extra=fl + "|sibling")
            seen.setdefault(fl, (norm, ast.unparse(tk)))
    if n < floor:
        raise AnalysisError(f"{modname}: only {n} add_argument(type=...) sites found")


def sole_outcome(ctx, outs, label):
    """For rules written around one normal outcome of a function.  With several normal outcomes the one that does the most work is
    analysed by the caller; every other normal exit must do the same top-level work (it may skip a loop over a list that its own
    guard says is empty) and return the same value - otherwise it is reported: an exit that skips the work is a path on which the
    property's effect does not happen.  Same work but another result cannot be judged here (ANALYSIS-ERROR)."""
    R = ctx.report
    if len(outs) == 1:
        return outs
    if not outs:
        raise AnalysisError(label)

    def work(o):
        return [e for e in o.effects if isinstance(e, App) and e.op not in ("eff:assume", "eff:log")]

    def implies_empty(conds, it):
        return any(c in (App("not", (it,)), App("==", (App("len", (it,)), Const(0))), App("<", (App("len", (it,)), Const(1)))) for c in conds)
    ranked = sorted(outs, key=lambda o: -len(list(all_effects(o.effects))))
    main = ranked[0]
    rid = f"{ctx.prop}-G1 no normal exit skips the work"
    if rid not in R.rules:
        R.rule(rid, 0, "every normal exit of an analysed function performs the effects the rules reason about")
    for x in ranked[1:]:
        xw = work(x)
        missing = [e for e in work(main) if e not in xw and not (e.op == "eff:loop" and implies_empty(x.conds, e.args[0]))]
        if not missing:
            if x.value == main.value:
                R.ok(rid, label)
                continue
            raise AnalysisError(f"{label}: several normal outcomes with the same effects but different results")
        # the exit is taken when some value is None and everything it skips needs that very value (write to a file that was not
        # named, remove an element that was not found): nothing is lost
        none_terms = []
        for c_, pol_ in norm_guards([(c0, True) for c0 in conjuncts(x.conds)]):
            if isinstance(c_, App) and c_.op in ("is", "is not") and Const(None) in c_.args and (c_.op == "is") == pol_:
                none_terms += [a_ for a_ in c_.args if a_ != Const(None)]
        if none_terms and all(any(t_ in list(subterms(e)) for t_ in none_terms) for e in missing):
            R.ok(rid, label)
            continue
        # "look something up; nothing found -> nothing to do": the exit is guarded by `<computed value> is None`.  Whether the work it
        # skips was only ever meant for a found value cannot be judged here - not a verdict
        for c_, pol_ in norm_guards([(c0, True) for c0 in conjuncts(x.conds)]):
            if isinstance(c_, App) and c_.op == "loopbroke" and not pol_:
                raise AnalysisError(f"{label}: a normal exit taken when a search loop found nothing (for ... else) skips part of the work of the other "
                                    f"exits - cannot judge whether that work applies without a match")
            if isinstance(c_, App) and c_.op in ("is", "is not") and Const(None) in c_.args and (c_.op == "is") == pol_:
                other = [a_ for a_ in c_.args if a_ != Const(None)]
                if other and not isinstance(other[0], Sym) and not (isinstance(other[0], App) and (other[0].op.startswith("attr:") or other[0].op == "idx")):
                    raise AnalysisError(f"{label}: a normal exit taken when a looked-up value is None skips part of the work of the other exits - "
                                        f"cannot judge whether that work applies without the value")
        fi = None
        for f in ctx.repo.all_functions():
            if x.node is f.node or any(n is x.node for n in ast.walk(f.node)):
                fi = f
                break
        R.fail(rid, label, mod=fi.module if fi else None, node=x.node, function=ctx.fq(fi) if fi else label,
               construct=f"exit at {type(x.node).__name__} under {[repr(c)[:60] for c in x.conds[-2:]]}",
               expected="every normal exit does what the other normal exits do (write the file, refresh the digest, store the entry, ...)",
               found=f"this exit skips {repr(missing[0])[:220]}")
    return [main]


def absent(ctx, label, fi, what, consequence):
    """The function exists and was evaluated, and the effect the property is about does not occur in it at all (count 0): that is a
    verdict (the record is not written, the envelope is not added, ...), not an unrecognised form.  Reports and aborts the property."""
    from sa.index import Abort
    R = ctx.report
    rid = f"{ctx.prop}-G2 the analysed effect is present"
    if rid not in R.rules:
        R.rule(rid, 0, "the effect the rules reason about occurs in the anchored function")
    R.fail(rid, label, mod=fi.module if fi is not None else None, node=fi.node if fi is not None else None,
           function=ctx.fq(fi) if fi is not None else label, construct=f"absent: {what}", expected=f"{what} on the normal path",
           found=f"no such effect in the function: {consequence}")
    raise Abort()


def python_traps(ctx, relpaths):
    """Language traps that change behaviour for some inputs only, checked on the files a property is anchored in:
    * a generator (generator expression, map / filter / zip / iter result) bound to a name and used more than once, or used inside a
      loop: the first use consumes it (a membership test `x in gen` consumes up to the match), later uses see the rest;
    * `is` / `is not` against an int / str / bytes literal: identity of equal values is an implementation detail."""
    from sa.index import walk_no_nested
    R = ctx.report
    repo = ctx.repo
    rid = f"{ctx.prop}-G3 language traps"
    R.rule(rid, 0, "no generator consumed twice; no identity comparison with a literal")
    n = 0
    # classes of the description / wire model (derived from SuitObject) that give their objects a content-dependent truth value
    sized_ = set()
    for m_ in repo.modules.values():
        for c_ in m_.classes.values():
            try:
                mro_ = repo.mro(c_)
            except Exception:
                continue
            if any(b_.name == "SuitObject" for b_ in mro_) and any(isinstance(d_, (ast.FunctionDef, ast.AsyncFunctionDef)) and d_.name in ("__len__", "__bool__")
                                                                 for d_ in c_.node.body):
                sized_.add(c_)
    for m in repo.modules.values():
        if m.relpath not in relpaths:
            continue
        for f in m.functions.values():
            n += 1
            par = None
            gens = {}
            for a in walk_no_nested(f.node):
                if isinstance(a, ast.Assign) and len(a.targets) == 1 and isinstance(a.targets[0], ast.Name):
                    v = a.value
                    if isinstance(v, ast.GeneratorExp) or (isinstance(v, ast.Call) and isinstance(v.func, ast.Name) and v.func.id in ("map", "filter", "zip", "iter", "reversed")):
                        gens[a.targets[0].id] = a
            bad = []
            for name, asg in gens.items():
                loads = [x for x in walk_no_nested(f.node) if isinstance(x, ast.Name) and x.id == name and isinstance(x.ctx, ast.Load)]
                rebinds = [x for x in walk_no_nested(f.node) if isinstance(x, ast.Name) and x.id == name and isinstance(x.ctx, ast.Store)]
                if len(rebinds) > 1:
                    continue
                in_loop = False
                if loads:
                    if par is None:
                        par = {}
                        for p_ in ast.walk(f.node):
                            for c_ in ast.iter_child_nodes(p_):
                                par[c_] = p_
                    for x in loads:
                        p_ = par.get(x)
                        while p_ is not None and p_ is not f.node:
                            if isinstance(p_, (ast.For, ast.While)) and not (isinstance(p_, ast.For) and p_.iter is x) and asg not in ast.walk(p_):
                                in_loop = True
                            if isinstance(p_, (ast.ListComp, ast.SetComp, ast.DictComp, ast.GeneratorExp)) and not any(g_.iter is x for g_ in p_.generators[:1]):
                                in_loop = True
                            p_ = par.get(p_)
                if len(loads) > 1 or in_loop:
                    bad.append((loads[0], f"generator {name} is used {'inside a loop' if in_loop else str(len(loads)) + ' times'}: the first use consumes it"))
            for c in walk_no_nested(f.node):
                if isinstance(c, ast.Call) and any(isinstance(a_, ast.GeneratorExp) for a_ in c.args):
                    r_ = repo.resolve_expr(m, c.func) if isinstance(c.func, (ast.Name, ast.Attribute)) else None
                    if (isinstance(c.func, ast.Name) and c.func.id == "cls") or (r_ and r_[0] == "class"):
                        bad.append((c, f"a generator expression is handed to the constructor {ast.unparse(c.func)[:30]}(): the object keeps a one-shot iterator "
                                       f"(its first serialization consumes it)"))
                if isinstance(c, ast.Compare) and any(isinstance(o, (ast.Is, ast.IsNot)) for o in c.ops):
                    for side in [c.left] + list(c.comparators):
                        if isinstance(side, ast.Constant) and isinstance(side.value, (int, str, bytes)) and not isinstance(side.value, bool):
                            bad.append((c, f"identity comparison with the literal {side.value!r}"))
            # a name that is neither a parameter nor a local of the function and denotes a plain function of the module, used as an
            # object with data attributes / methods (<function>.hex(), <function>[i]): the name of a parameter or local that was
            # renamed everywhere but here now resolves to the module-level function of the same name
            bound_ = {a_.arg for a_ in ast.walk(f.node) if isinstance(a_, ast.arg)} | {
                x_.id for x_ in ast.walk(f.node) if isinstance(x_, ast.Name) and isinstance(x_.ctx, (ast.Store, ast.Del))} | {
                h_.name for h_ in ast.walk(f.node) if isinstance(h_, ast.ExceptHandler) and h_.name} | {
                al_.asname or al_.name.split(".")[0] for i_ in ast.walk(f.node) if isinstance(i_, (ast.Import, ast.ImportFrom)) for al_ in i_.names}
            for x_ in ast.walk(f.node):
                tgt_ = x_.value if isinstance(x_, (ast.Attribute, ast.Subscript)) and isinstance(x_.value, ast.Name) else None
                if tgt_ is None or tgt_.id in bound_ or tgt_.id not in m.functions or tgt_.id in m.classes:
                    continue
                if isinstance(x_, ast.Attribute) and (x_.attr.startswith("__") or x_.attr in ("cache_clear", "cache_info", "__wrapped__")):
                    continue
                if m.functions[tgt_.id].decorators:
                    continue  # a decorated function may be any object
                bad.append((x_, f"{ast.unparse(x_)[:40]}: {tgt_.id} is the module-level function {tgt_.id}() here, not a value (a renamed parameter / local left behind?)"))
            # truthiness of a model object.  Objects of the description / wire model are plain objects (always true) unless a class of
            # the model defines __len__ / __bool__; then `if not obj` / `obj or ...` on the result of from_obj / from_cbor also
            # takes the branch for an *empty* but present item (an empty command list, an empty index list)
            if sized_:
                model_names = {}
                for a in walk_no_nested(f.node):
                    tgt_, v = None, None
                    if isinstance(a, ast.Assign) and len(a.targets) == 1 and isinstance(a.targets[0], ast.Name):
                        tgt_, v = a.targets[0].id, a.value
                    elif isinstance(a, ast.NamedExpr) and isinstance(a.target, ast.Name):
                        tgt_, v = a.target.id, a.value
                    if tgt_ and isinstance(v, ast.Call) and isinstance(v.func, ast.Attribute) and v.func.attr in ("from_obj", "from_cbor"):
                        recv = repo.resolve_expr(m, v.func.value) if isinstance(v.func.value, (ast.Name, ast.Attribute)) else None
                        if recv and recv[0] == "class" and not any(c_ in sized_ for c_ in repo.mro(recv[1])):
                            continue  # a named class of the model whose objects are always true
                        model_names[tgt_] = a
                if model_names:
                    tests = []
                    for x in walk_no_nested(f.node):
                        if isinstance(x, (ast.If, ast.While, ast.IfExp)):
                            tests.append(x.test)
                        elif isinstance(x, ast.BoolOp):
                            tests.extend(x.values)
                        elif isinstance(x, ast.UnaryOp) and isinstance(x.op, ast.Not):
                            tests.append(x.operand)
                        elif isinstance(x, ast.Call) and isinstance(x.func, ast.Name) and x.func.id == "bool" and x.args:
                            tests.append(x.args[0])
                    for t_ in tests:
                        if isinstance(t_, ast.NamedExpr):
                            t_ = t_.target
                        if isinstance(t_, ast.Name) and t_.id in model_names:
                            bad.append((t_, f"truth value of the model object {t_.id}: {', '.join(sorted(c_.name for c_ in sized_))} define(s) __len__ / __bool__, "
                                            f"so an empty but present item counts as absent"))
            if bad:
                for node, what in bad:
                    R.fail(rid, f"{ctx.fq(f)}: {what}", mod=m, node=node, function=ctx.fq(f), expected="the value is computed once into a list / compared with ==",
                           found=what, key_extra=what[:40])
            else:
                R.ok(rid, ctx.fq(f))
    return n


HASH_REF = {"sha256": ("sha256", 32), "sha384": ("sha384", 48), "sha512": ("sha512", 64), "shake128": ("shake128", 16), "shake256": ("shake256", 32)}
HASH_KEYS = {-16: "sha256", -43: "sha384", -44: "sha512", -18: "shake128", -45: "shake256",
             "cose-alg-sha-256": "sha256", "cose-alg-sha-384": "sha384", "cose-alg-sha-512": "sha512", "cose-alg-shake128": "shake128",
             "cose-alg-shake256": "shake256", "sha-256": "sha256", "sha-384": "sha384", "sha-512": "sha512", "shake128": "shake128", "shake256": "shake256"}


def sibling_hash_tables(ctx, rid, modnames=None):
    """Every table in the repository that maps a SUIT / COSE digest algorithm to a hash primitive (and output length) agrees with the
    registry the envelope creator uses: SHA-256/384/512 and SHAKE128 with 16, SHAKE256 with 32 output bytes (the SUIT profile; RFC 9054
    lists 32 / 64 for COSE in general - a table built from that refuses or mis-hashes the tool's own SHAKE digests)."""
    R = ctx.report
    repo = ctx.repo
    R.rule(rid, 1, "per table: primitive and output length of every digest algorithm equal the creator's")
    n = 0

    def prim_len(v):
        txt = ast.unparse(v).lower().replace("_", "").replace("-", "")
        prim = next((p for p in ("shake128", "shake256", "sha3384", "sha3256", "sha3512", "sha256", "sha384", "sha512") if p in txt), None)
        ints = [x.value for x in ast.walk(v) if isinstance(x, ast.Constant) and isinstance(x.value, int) and not isinstance(x.value, bool)]
        return prim, (ints[-1] if ints else None)
    for m in repo.modules.values():
        if modnames is not None and m.name not in modnames:
            continue
        for d in ast.walk(m.tree):
            if not isinstance(d, ast.Dict) or len(d.keys) < 3:
                continue
            keys = []
            for k in d.keys:
                kv = None
                if isinstance(k, ast.Constant):
                    kv = k.value
                elif isinstance(k, ast.UnaryOp) and isinstance(k.op, ast.USub) and isinstance(k.operand, ast.Constant):
                    kv = -k.operand.value
                elif isinstance(k, (ast.Attribute, ast.Name)):
                    try:
                        kv = ctx.ev.const(k, m)  # a named constant (cose_alg_sha_256.name, ...)
                    except AnalysisError:
                        kv = None
                    if not isinstance(kv, (str, int)):
                        kv = None
                keys.append(kv)
            if not all(k in HASH_KEYS for k in keys):
                continue
            pls = [prim_len(v) for v in d.values]
            if not all(p for p, _ in pls):
                continue
            n += 1
            bad = []
            for k, (p, ln) in zip(keys, pls):
                want_p, want_l = HASH_REF[HASH_KEYS[k]]
                if p != want_p or (ln is not None and p.startswith("shake") and ln != want_l):
                    bad.append(f"{k!r}: {p}{'/' + str(ln) if ln is not None else ''} (creator: {want_p}/{want_l})")
            R.check(rid, not bad, f"{m.relpath}: table at line {d.lineno}", mod=m, node=d, function=m.name, expected="the creator's primitives and output lengths",
                    found="; ".join(bad)[:300], key_extra=f"{m.relpath}:{sorted(map(str, keys))}")
    if n < 1:
        raise AnalysisError("no digest algorithm table found in the repository")


def no_refusal_on_grid(ctx, rid, fi, grids, inline_depth=2, what="legal values"):
    """No raise of the function (helpers inlined to `inline_depth`) is selected by legal values of its numeric parameters.
    Only guards that mention a grid parameter and are evaluable from the grid alone are considered (comparisons, arithmetic, masks:
    a finite set of orderings / bit patterns, sampled at the boundaries); a guard that also depends on other data is left to the
    specific rules.  Catches range checks with a wrong bound (`1 << 32 - 1`), masks applied to negative intermediates, etc."""
    from itertools import product
    from sa.absint import Evaluator as _Ev
    from sa.teval import Raised, Unknown, teval
    R = ctx.report
    if rid not in R.rules:
        R.rule(rid, 1, "no refusal is selected by a legal value of a numeric parameter")
    names = list(grids)
    syms = {n: Sym("param:" + n) for n in names}
    refused = []
    for o in _Ev(ctx.repo, inline_depth=inline_depth).outcomes(fi):
        if o.kind != "raise":
            continue
        rel = [c for c in o.conds if any(s_ in syms.values() for s_ in subterms(c))]
        if not rel:
            continue
        used = [n for n in names if any(syms[n] in list(subterms(c)) for c in rel)]
        for point in product(*[grids[n] for n in used]):
            env = {syms[n]: v for n, v in zip(used, point)}
            try:
                if all(bool(teval(c, env)) for c in rel):
                    refused.append((dict(zip(used, point)), o))
                    break
            except (Unknown, Raised, Exception):
                break
    R.check(rid, not refused, ctx.fq(fi), mod=fi.module, node=refused[0][1].node if refused else fi.node, function=ctx.fq(fi),
            expected=f"every combination of {what} is processed", found=f"refused: { {k: hex(v) if isinstance(v, int) and v > 255 else v for k, v in refused[0][0].items()} }" if refused else "",
            key_extra=fi.qualname)


def taken_calls(effects, facts, out=None):
    """The calls on the way through `effects` that the facts select: a branch the facts decide is followed, one they do not decide
    is followed on both sides (see taken_outcomes)."""
    from sa.teval import teval, Unknown
    out = [] if out is None else out
    for e in effects:
        if not isinstance(e, App):
            continue
        if e.op == "eff:if":
            try:
                g = teval(norm_cond(e.args[0]), facts)
                taken_calls(e.args[1].args if g else e.args[2].args, facts, out)
            except Unknown:
                taken_calls(e.args[1].args, facts, out)
                taken_calls(e.args[2].args, facts, out)
        elif e.op in ("eff:loop",):
            taken_calls(e.args[1].args, facts, out)
        elif e.op == "eff:partial":
            taken_calls(e.args[0].args, facts, out)
        elif e.op == "eff:alts":
            for alt in e.args:
                taken_calls(alt.args, facts, out)
        elif e.op == "eff:call":
            out.append(e.args[0])
    return out


def subcommand_dispatch(ctx, rid, modname, floor=2):
    """Sub-command dispatch of a command module, derived from the module itself: `add_arguments` defines, per sub-parser, the name of
    the sub-command and its options; `main(**kwargs)` selects by `kwargs[<dest>] == <name>`.  Under each name, main (and the module
    functions it hands **kwargs to) may read only options that sub-parser defines - a swapped or inverted dispatch makes a
    sub-command read the options of its sibling, which argparse never set."""
    from sa.index import walk_no_nested
    R = ctx.report
    repo = ctx.repo
    m = repo.mod(modname)
    aa = repo.func(modname, "add_arguments")
    mainf = repo.func(modname, "main")
    ev = ctx.ev
    R.rule(rid, floor, "under each sub-command name main reads only the options its own sub-parser defines")

    def dest_of(call):
        for k in call.keywords:
            if k.arg == "dest" and isinstance(k.value, ast.Constant):
                return k.value.value
        flags = [a.value for a in call.args if isinstance(a, ast.Constant) and isinstance(a.value, str)]
        longs = [f for f in flags if f.startswith("--")] or flags
        return longs[0].lstrip("-").replace("-", "_") if longs else None

    parsers = {}   # variable name -> {"name": sub-command value or None (parent), "opts": set}
    dest_key = None
    helper_opts = {}
    for f in m.functions.values():
        if f is aa or not f.params():
            continue
        p0 = f.params()[0]
        opts = {dest_of(c) for c in walk_no_nested(f.node) if isinstance(c, ast.Call) and isinstance(c.func, ast.Attribute) and c.func.attr == "add_argument"
                and isinstance(c.func.value, ast.Name) and c.func.value.id == p0}
        if opts:
            helper_opts[f.name] = {o for o in opts if o}
    # sub-parsers may be created in add_arguments itself or in helper functions of the module (one per sub-command)
    scan_nodes = [n_ for f_ in {id(x): x for x in m.functions.values()}.values() for n_ in walk_no_nested(f_.node)]
    for n in scan_nodes:
        if isinstance(n, ast.Assign) and len(n.targets) == 1 and isinstance(n.targets[0], ast.Name) and isinstance(n.value, ast.Call) \
                and isinstance(n.value.func, ast.Attribute):
            if n.value.func.attr == "add_parser" and n.value.args:
                try:
                    entry_ = {"name": ev.const(n.value.args[0], m), "opts": set(), "via": ast.unparse(n.value.func.value)}
                except AnalysisError:
                    raise AnalysisError(f"{modname}.add_arguments: sub-command name is not a constant: {ast.unparse(n.value.args[0])[:60]}")
                if n.targets[0].id in parsers and parsers[n.targets[0].id]["name"] != entry_["name"]:
                    raise AnalysisError(f"{modname}: the name {n.targets[0].id} denotes two different sub-parsers in different functions")
                parsers[n.targets[0].id] = entry_
            elif n.value.func.attr == "add_subparsers":
                for k in n.value.keywords:
                    if k.arg == "dest":
                        try:
                            dv = ev.const(k.value, m)
                        except AnalysisError:
                            continue
                        parsers.setdefault(n.targets[0].id, {"name": None, "opts": set(), "via": "", "dest": dv})
    for f_, c_, pos_, kws_, recv_ in cli_registrations(repo, m):
        if isinstance(recv_, ast.Name) and recv_.id in parsers:
            flags_ = [a_.value for a_ in pos_ if isinstance(a_, ast.Constant) and isinstance(a_.value, str)]
            if "dest" in kws_ and isinstance(kws_["dest"], ast.Constant):
                parsers[recv_.id]["opts"].add(kws_["dest"].value)
            elif flags_:
                longs_ = [x_ for x_ in flags_ if x_.startswith("--")] or flags_
                parsers[recv_.id]["opts"].add(longs_[0].lstrip("-").replace("-", "_"))
    # the innermost level of sub-commands that main dispatches on: sub-parsers registered through an add_subparsers(dest=...) object
    levels = {}
    for var, p in parsers.items():
        if p["name"] is not None and p["via"] in parsers and "dest" in parsers[p["via"]]:
            levels.setdefault(parsers[p["via"]]["dest"], []).append(p)
    outs = [o for o in Evaluator(repo, inline_depth=0).outcomes(mainf)]
    KW = Sym("param:kwargs")
    used_dest = {s_.args[1].v for o in outs for t in list(o.conds) + list(all_effects(o.effects)) for s_ in subterms(t)
                 if isinstance(s_, App) and s_.op == "idx" and s_.args[0] == KW and isinstance(s_.args[1], Const) and s_.args[1].v in levels}
    if len(used_dest) != 1:
        raise AnalysisError(f"{modname}.main: dispatch key not recognised (sub-parser dests {sorted(levels)}, read {sorted(used_dest)})")
    dest_key = used_dest.pop()
    subs = levels[dest_key]
    # options of the enclosing parsers are available to every sub-command
    common = {dest_key}
    for var, p in parsers.items():
        if p["name"] is not None and not any(p is s_ for s_ in subs):
            common |= p["opts"]

    def reads_of_function(fi, depth=0):
        """kwargs keys a module function called with **kwargs reads (its own body and, one level, what it hands **kwargs on to)"""
        a = fi.node.args
        if a.kwarg is None:
            return set()
        kw = a.kwarg.arg
        out = set()
        for n in walk_no_nested(fi.node):
            if isinstance(n, ast.Subscript) and isinstance(n.value, ast.Name) and n.value.id == kw and isinstance(n.slice, ast.Constant):
                out.add(n.slice.value)
            if isinstance(n, ast.Call) and isinstance(n.func, ast.Attribute) and n.func.attr == "get" and isinstance(n.func.value, ast.Name) and n.func.value.id == kw \
                    and n.args and isinstance(n.args[0], ast.Constant):
                pass  # .get(): tolerant of an absent option
            if depth < 2 and isinstance(n, ast.Call) and any(k.arg is None and isinstance(k.value, ast.Name) and k.value.id == kw for k in n.keywords):
                r = repo.resolve_expr(fi.module, n.func)
                if r and r[0] == "func":
                    out |= reads_of_function(r[1], depth + 1)
        return out
    n_checked = 0
    for p in subs:
        facts = {App("idx", (KW, Const(dest_key))): p["name"]}
        reads, reached = set(), False
        for o in taken_outcomes(outs, facts, strict=False):
            if o.kind != "return":
                continue
            reached = True
            calls = taken_calls(o.effects, facts)
            for c in calls:
                for s_ in subterms(c):
                    if isinstance(s_, App) and s_.op == "idx" and s_.args[0] == KW and isinstance(s_.args[1], Const):
                        reads.add(s_.args[1].v)
                if c.op == "call" and isinstance(c.args[0], Ref) and c.args[0].kind == "func" and any(isinstance(x, App) and x.op == "starkw" and x.args[0] == KW for x in c.args):
                    reads |= reads_of_function(c.args[0].obj)
        foreign = sorted(reads - p["opts"] - common)
        n_checked += 1
        R.check(rid, reached and not foreign, f"{modname}: sub-command {p['name']!r}", mod=m, node=mainf.node, function=ctx.fq(mainf),
                expected=f"reads only {sorted(p['opts'] | common)}", found=(f"reads {foreign}: options of another sub-command, never set for {p['name']!r}" if foreign else
                                                                             "no normal path for this sub-command"), key_extra=str(p["name"]))
    if n_checked < floor:
        raise AnalysisError(f"{modname}: only {n_checked} sub-commands recognised")



def loops_env(outcome, value=None):
    """The loop tables teval needs to fold the loop-carried values of an outcome: {"__loops__": {line: (iterable term, name of the
    iterated variable)}, "__loopouts__": {line: {name: update term}}} - loops nested in branches, in other loops and in followed
    helpers included."""
    loops, louts = {}, {}

    def collect(effs):
        for e_ in effs:
            if isinstance(e_, App) and e_.op == "eff:loop":
                if getattr(e_.node, "lineno", None) is not None:
                    it = e_.node.iter if isinstance(e_.node, ast.For) else None
                    loops[e_.node.lineno] = (e_.args[0], it.id if isinstance(it, ast.Name) else None)
                collect(e_.args[1].args)
            elif isinstance(e_, App) and e_.op == "eff:if":
                collect(e_.args[1].args)
                collect(e_.args[2].args)
            elif isinstance(e_, App) and e_.op == "eff:alts":
                for alt in e_.args:
                    collect(alt.args)

    collect(outcome.effects)
    for t in [outcome.value if value is None else value] + list(outcome.conds):
        for s_ in subterms(t):
            if isinstance(s_, App) and s_.op == "loopout" and len(s_.args) == 3:
                louts.setdefault(s_.args[1].v, {})[s_.args[0].v] = s_.args[2]
    return {"__loops__": loops, "__loopouts__": louts}


def hash_table_of(ctx, cls_info, method):
    """The algorithm table a hashing class consults, found from its use - the mapping indexed inside `hashes.Hash(<table>[name])` of
    the given method - wherever the table lives (class attribute, module constant, another class): (table term, node to report)."""
    from sa.absint import Evaluator
    fi = cls_info.methods.get(method)
    if fi is None:
        raise AnalysisError(f"anchor function {cls_info.fq}.{method} vanished")
    SELF = Sym("param:self")
    found = []
    for o in Evaluator(ctx.repo, inline_depth=0).outcomes(fi):
        if o.kind != "return":
            continue
        for s_ in subterms(o.value):
            if isinstance(s_, App) and s_.op == "hash" and s_.args and isinstance(s_.args[0], App) and s_.args[0].op == "idx":
                tbl = s_.args[0].args[0]
                if tbl not in found:
                    found.append(tbl)
    if len(found) != 1:
        # not consulted in that form: the table kept under the customary name, whatever its entries look like
        owner = next((c for c in ctx.repo.mro(cls_info) if "_hash_func" in c.attrs), None)
        if owner is None:
            raise AnalysisError(f"{ctx.fq(fi)}: the algorithm table is not the mapping indexed inside hashes.Hash(...) ({len(found)} candidates)")
        found = [App("attr:_hash_func", (SELF,))]
    tbl = found[0]
    node = fi.node
    if isinstance(tbl, App) and tbl.op.startswith("attr:") and tbl.args and tbl.args[0] in (SELF, Sym("param:cls")):
        name = tbl.op[5:]
        owner = next((c for c in ctx.repo.mro(cls_info) if name in c.attrs), None)
        if owner is None:
            raise AnalysisError(f"{cls_info.fq}.{name}: class attribute holding the algorithm table not found")
        node = owner.attr_nodes[name]
        tbl = ctx.ev.term(owner.attrs[name], owner.module)
    if dict_pairs(tbl) is None:
        raise AnalysisError(f"{ctx.fq(fi)}: algorithm table not foldable ({tbl!r})"[:240])
    return tbl, node


KMS_KEY_KINDS = (("EllipticCurvePrivateKey", 256), ("EllipticCurvePrivateKey", 384), ("EllipticCurvePrivateKey", 521),
                 ("Ed25519PrivateKey", None), ("Ed448PrivateKey", None), ("RSAPrivateKey", None))
KMS_ALGORITHMS = ("es-256", "es-384", "es-521", "eddsa", "hash-eddsa")


KMS_ROUTINE_NAMES = {"es": "_create_cose_es_signature", "ed": "_create_cose_ed_signature", "prehashed": "_create_cose_ed_prehashed_signature"}


def kms_routines(impl):
    """The three signing routines of a KMS class by role, whatever they are called: {'es' | 'ed' | 'prehashed': FuncInfo}.  A routine
    is a private method that calls .sign(...) on something; ECDSA: it names ECDSA / decodes a DSS signature; prehashed EdDSA: it
    builds a SHA-512 / an eddsa object; pure EdDSA: neither."""
    out = {}
    for n, f in impl.methods.items():
        if not n.startswith("_") or n.startswith("__"):
            continue
        calls_sign = any(isinstance(x, ast.Call) and isinstance(x.func, ast.Attribute) and x.func.attr == "sign" for x in ast.walk(f.node))
        if not calls_sign:
            continue
        words = {x.attr for x in ast.walk(f.node) if isinstance(x, ast.Attribute)} | {x.id for x in ast.walk(f.node) if isinstance(x, ast.Name)}
        role = "es" if words & {"ECDSA", "decode_dss_signature"} else ("prehashed" if words & {"SHA512", "eddsa"} else "ed")
        if role in out and out[role] is f:
            continue  # the same function registered under two names (a renamed anchor, index._renamed)
        if role in out:
            raise AnalysisError(f"{impl.fq}: two signing routines of kind {role} ({out[role].name}, {n})")
        out[role] = f
    return out


def kms_sign_table(ctx, impl):
    """Decision table of <KMS>.sign(): for every kind of loaded key and every algorithm string, what the call does - 'raise', or the
    name of the signing routine whose result is returned together with what it is given as data.  Private helpers of the class are
    followed, so the table is the same whether key check and routine selection live in helpers, in one helper or in sign() itself.
    None when the terms cannot be evaluated (the helper-anchored proof rules decide then)."""
    from sa.teval import teval, Unknown, Raised, Stub
    sg = impl.methods.get("sign")
    if sg is None:
        raise AnalysisError(f"anchor function {impl.fq}.sign vanished")
    by_role = kms_routines(impl)
    opaque = {f.name for f in by_role.values()}
    ev = Evaluator(ctx.repo, inline_depth=3, inline_filter=lambda f: f.cls is impl and f.name.startswith("_") and not f.name.startswith("__")
                   and f.name not in opaque)
    ev.never_inline = {f.fq for f in by_role.values()}
    # the table names the routines by their customary names, whatever they are called in this tree
    routines = {f.name: (lambda *a, n_=KMS_ROUTINE_NAMES[r]: (n_, a[1] if len(a) > 1 else None)) for r, f in by_role.items()}
    helpers = {n: f for n, f in impl.methods.items() if n.startswith("_") and not n.startswith("__") and f.name not in opaque}

    class _Raises(Raised):
        def __init__(self, name):
            super().__init__(name)
            self.name = name

    def exc_name(v):
        if isinstance(v, App) and v.op == "new" and isinstance(v.args[0], Ref):
            return v.args[0].obj.name
        if isinstance(v, App) and v.op.startswith("call:"):
            return v.op.split(":")[-1].split(".")[-1]
        return "Exception"

    def run(fi, argvals, kind, size, alg, depth):
        """What a call of fi does for this kind of key: its value, or _Raises.  Helpers that were not followed into (a call inside a
        try block) are evaluated the same way when their value or their raising is asked for."""
        if depth > 4:
            raise Unknown("helper depth")
        outs = ev.outcomes(fi)
        calls = dict(routines)
        for hn, hf in helpers.items():
            if hf is not fi:
                calls[hn] = (lambda *a, hf_=hf: run(hf_, list(a), kind, size, alg, depth + 1))
        env = {"__calls__": calls, "__opaque_args__": True}
        for p_, v_ in zip(fi.params(), argvals):
            if v_ is not None or p_ not in ("self", "cls"):
                env["param:" + p_] = v_
        terms = [c for o in outs for c in o.conds] + [o.value for o in outs if o.kind == "return" and o.value is not None]
        for t in terms:
            for s_ in subterms(t):
                if isinstance(s_, App) and s_.op == "isinstance":
                    env[s_] = kind in repr(s_.args[1])
                    if isinstance(s_.args[0], App):
                        env[s_.args[0]] = Stub("key")
                elif isinstance(s_, App) and s_.op == "attr:key_size":
                    env[s_] = size
                elif isinstance(s_, App) and s_.op in ("meth:is_file", "meth:exists", "call:os.path.isfile", "call:os.path.exists"):
                    env[s_] = True

        def holds(o, c):
            if isinstance(c, App) and c.op == "exc" and c.args and isinstance(c.args[0], Const):
                # "the guarded block raised <class>": decided by the calls of that block that were not followed into
                caught = str(c.args[0].v).split(".")[-1]
                for e_ in o.effects:
                    if isinstance(e_, App) and e_.op == "eff:partial":
                        for x_ in all_effects(e_.args[0].args):
                            if isinstance(x_, App) and x_.op == "eff:call" and isinstance(x_.args[0], App) and x_.args[0].op == "call" \
                                    and isinstance(x_.args[0].args[0], Ref) and getattr(x_.args[0].args[0].obj, "name", None) in calls:
                                try:
                                    teval(x_.args[0], env)
                                except _Raises as r_:
                                    return caught in (r_.name, "Exception", "BaseException") or caught.startswith("(")
                return False
            if isinstance(c, App) and c.op == "not" and len(c.args) == 1 and isinstance(c.args[0], App) and c.args[0].op == "exc":
                return not holds(o, c.args[0])
            return bool(teval(c, env))
        for o in sorted(outs, key=lambda o_: o_.kind != "raise"):  # a raise pre-empts the merged normal exit of a followed helper
            if not all(holds(o, c) for c in o.conds):
                continue
            if o.kind == "raise":
                raise _Raises(exc_name(o.value))
            return teval(o.value, env) if o.value is not None else None
        raise Unknown("no exit selected")

    table = {}
    for kind, size in KMS_KEY_KINDS:
        for alg in KMS_ALGORITHMS:
            try:
                argv = [None] + [{"data": b"<data>", "algorithm": alg}.get(p_, Stub("arg:" + p_)) for p_ in sg.params()[1:]]
                v = run(sg, argv, kind, size, alg, 0)
                res = v if isinstance(v, tuple) and v and v[0] in KMS_ROUTINE_NAMES.values() else ("?", repr(v)[:60])
            except Raised:
                res = "raise"
            except Unknown:
                return None
            table[(kind, size, alg)] = res
    return table

def kms_sign_table_expected():
    want = {}
    for kind, size in KMS_KEY_KINDS:
        for alg in KMS_ALGORITHMS:
            if kind == "EllipticCurvePrivateKey":
                want[(kind, size, alg)] = ("_create_cose_es_signature", b"<data>") if alg == f"es-{size}" else "raise"
            elif kind in ("Ed25519PrivateKey", "Ed448PrivateKey"):
                want[(kind, size, alg)] = {"eddsa": ("_create_cose_ed_signature", b"<data>"),
                                           "hash-eddsa": ("_create_cose_ed_prehashed_signature", b"<data>")}.get(alg, "raise")
            else:
                want[(kind, size, alg)] = "raise"
    return want


def value_slot_naming(ctx):
    """The generic node keeps its content in an attribute named after its own class (SuitObject.__init__) and finds it again by
    looking for an attribute whose name contains one of a few fixed substrings (SuitObject.value): a node class whose name contains
    none of them can be built but neither encoded nor shown.  The substrings and the convention are read from the two methods; when
    the content is kept another way the rule does not apply."""
    R, repo = ctx.report, ctx.repo
    rid = f"{ctx.prop}-G4 value slot naming"
    so = repo.mod(COMMON).classes.get("SuitObject")
    if so is None:
        return
    init, getter = so.methods.get("__init__"), so.methods.get("value")
    if init is None or getter is None:
        return
    by_class_name = any(isinstance(n, ast.Call) and isinstance(n.func, ast.Name) and n.func.id == "setattr" and len(n.args) == 3
                        and "__class__.__name__" in ast.unparse(n.args[1]) for n in ast.walk(init.node))
    needles = set()
    for f in (getter, so.methods.get("value.setter")):
        if f is None:
            continue
        for n in ast.walk(f.node):
            if isinstance(n, ast.Compare) and len(n.ops) == 1 and isinstance(n.ops[0], ast.In) and isinstance(n.left, ast.Constant) \
                    and isinstance(n.left.value, str) and isinstance(n.comparators[0], ast.Name):
                needles.add(n.left.value)
    if not by_class_name or not needles:
        R.info("the generic node does not find its content by class name: the naming rule (G4) does not apply")
        return
    R.rule(rid, 60, f"every node class is named so that SuitObject.value finds its content (contains one of {sorted(needles)})")
    for m in repo.modules.values():
        for c in m.classes.values():
            if c.outer is not None or c is so:
                continue
            try:
                is_node = so in repo.mro(c)
            except AnalysisError:
                is_node = False
            if not is_node:
                continue
            R.check(rid, any(s_ in c.name for s_ in needles), c.fq, mod=m, node=c.node, function=c.fq,
                    expected=f"a class name containing one of {sorted(needles)}",
                    found=f"{c.name}: an object of this class stores its content as attribute {c.name!r}, which value / to_cbor / to_obj never find",
                    key_extra=c.name)


def kwargs_keys_are_dests(ctx, rid, modname, entry="main"):
    """Every key the command's entry point reads from its **kwargs is the destination of an option (or sub-command selector) the
    module registers: argparse hands the values over under `dest` - the long flag with '-' replaced by '_' unless dest= says
    otherwise - so a key spelled any other way is never present (KeyError, or for .get() silently the default)."""
    R, repo = ctx.report, ctx.repo
    m = repo.mod(modname)
    fi = repo.func(modname, entry)
    kwname = fi.node.args.kwarg.arg if fi.node.args.kwarg else None
    if kwname is None:
        return
    dests = set()
    for _f, _c, pos, kw, _recv in cli_registrations(repo, m):
        d = kw.get("dest")
        if isinstance(d, ast.Constant) and isinstance(d.value, str):
            dests.add(d.value)
            continue
        flags = [a.value for a in pos if isinstance(a, ast.Constant) and isinstance(a.value, str)]
        longs = [f_ for f_ in flags if f_.startswith("--")]
        if longs:
            dests.add(longs[0][2:].replace("-", "_"))
        elif flags and not flags[0].startswith("-"):
            dests.add(flags[0])
        elif flags:
            dests.add(flags[0].lstrip("-").replace("-", "_"))
    for n in ast.walk(m.tree):
        if isinstance(n, ast.Call) and isinstance(n.func, ast.Attribute) and n.func.attr == "add_subparsers":
            for k in n.keywords:
                if k.arg == "dest":
                    try:
                        v_ = ctx.ev.const(k.value, m)  # a literal or a named constant (ImageCreator.IMAGE_CMD)
                    except AnalysisError:
                        raise AnalysisError(f"{modname}: destination of the sub-command selector is not a constant ({ast.unparse(k.value)})")
                    dests.add(v_)
    reads = []
    for n in ast.walk(fi.node):
        if isinstance(n, ast.Subscript) and isinstance(n.value, ast.Name) and n.value.id == kwname and isinstance(n.slice, ast.Constant) \
                and isinstance(n.slice.value, str):
            reads.append((n.slice.value, n))
        elif isinstance(n, ast.Call) and isinstance(n.func, ast.Attribute) and n.func.attr in ("get", "pop") and isinstance(n.func.value, ast.Name) \
                and n.func.value.id == kwname and n.args and isinstance(n.args[0], ast.Constant) and isinstance(n.args[0].value, str):
            reads.append((n.args[0].value, n))
    if not dests or not reads:
        raise AnalysisError(f"{modname}:{entry}: option destinations / keyword reads not recognised ({len(dests)} / {len(reads)})")
    R.rule(rid, 1, "every key read from **kwargs is the dest of a registered option")
    for k, node in reads:
        R.check(rid, k in dests, f"{modname}:{entry} reads {k!r}", mod=m, node=node, function=ctx.fq(fi),
                expected=f"one of the registered destinations {sorted(dests)}"[:300],
                found=f"{k!r} is not the destination of any option: the value the user gave never arrives (default / KeyError instead)", key_extra=k + str(node.lineno))


def loops_run_to_end(ctx, rid, fi, markers, what, floor=1):
    """Every loop of `fi` whose body does the per-item work (a call of one of `markers`) runs to its end: a `break` that belongs to the
    loop, or a `return` anywhere inside it, leaves the remaining items unprocessed (raising is a refusal, not a skip).  The property
    behind `rid` says *every* item (slot, input file, envelope, dependency) is processed; a `continue` skips one item for a stated
    reason, a `break` in its place silently drops all later ones.  Search loops (no marker call in the body) are not concerned."""
    R = ctx.report
    R.rule(rid, floor, f"the loop over {what} has no break / return that ends it before the last item")

    def own_exits(loop):
        out, todo = [], list(loop.body) + list(loop.orelse)
        while todo:
            x = todo.pop()
            if isinstance(x, (ast.FunctionDef, ast.AsyncFunctionDef, ast.Lambda, ast.ClassDef)):
                continue
            if isinstance(x, (ast.For, ast.AsyncFor, ast.While)):
                todo.extend(y for y in ast.walk(x) if isinstance(y, ast.Return))
                continue
            if isinstance(x, (ast.Break, ast.Return)):
                out.append(x)
            todo.extend(ast.iter_child_nodes(x))
        return out

    def has_marker(loop):
        for c in ast.walk(loop):
            if isinstance(c, ast.Call):
                nm = c.func.attr if isinstance(c.func, ast.Attribute) else c.func.id if isinstance(c.func, ast.Name) else None
                if nm in markers:
                    return True
        return False
    n = 0
    for loop in [x for x in ast.walk(fi.node) if isinstance(x, (ast.For, ast.AsyncFor, ast.While))]:
        if not has_marker(loop):
            continue
        # the innermost loops that hold the marker and the loops around them are all "work loops"
        n += 1
        early = own_exits(loop)
        R.check(rid, not early, f"{ctx.fq(fi)}: loop at line {loop.lineno}", mod=fi.module, node=early[0] if early else loop, function=ctx.fq(fi),
                expected=f"every one of the {what} is processed: no break / return inside the loop",
                found=f"{type(early[0]).__name__.lower()} at line {early[0].lineno} ends the loop: the remaining {what} are silently dropped" if early else "",
                key_extra=fi.qualname + "loopend")
    return n


def unset_optional_params(ctx, fi):
    """Parameters of `fi` that have a constant default and that no call in the analysed packages supplies (neither by keyword nor by
    position, and no call of that name spreads *args / **kwargs): inside the program they always hold their default.  An optional
    parameter added for callers that do not exist yet therefore does not change what the tool does."""
    a = fi.node.args
    pos = [x.arg for x in a.posonlyargs + a.args]
    defaults = dict(zip(pos[len(pos) - len(a.defaults):], a.defaults))
    defaults.update({k.arg: d for k, d in zip(a.kwonlyargs, a.kw_defaults) if d is not None})
    cands = {n: d.value for n, d in defaults.items() if isinstance(d, ast.Constant)}
    if not cands:
        return {}
    bound = 1 if fi.cls is not None and "staticmethod" not in [getattr(d, "id", getattr(d, "attr", None)) for d in fi.node.decorator_list] else 0
    for m in ctx.repo.modules.values():
        for c in ast.walk(m.tree):
            if not isinstance(c, ast.Call):
                continue
            nm = c.func.attr if isinstance(c.func, ast.Attribute) else c.func.id if isinstance(c.func, ast.Name) else None
            if nm != fi.name and not (fi.name == "__init__" and fi.cls is not None and nm == fi.cls.name):
                continue
            if any(isinstance(x, ast.Starred) for x in c.args) or any(k.arg is None for k in c.keywords):
                return {}
            for k in c.keywords:
                cands.pop(k.arg, None)
            # positional arguments: as a method call the receiver takes the first parameter; as Class.method(obj, ...) it is passed
            for n in list(cands):
                if n in pos and len(c.args) > pos.index(n) - bound:
                    cands.pop(n, None)
    return cands


def fold_term(t):
    """Constant-fold `is` / `is not` / `not` / phi on constants after a substitution."""
    from sa.terms import phi as _phi
    if not isinstance(t, App):
        return t
    args = [fold_term(x) for x in t.args]
    if t.op in ("is", "is not") and len(args) == 2 and all(isinstance(x, Const) for x in args) and (args[0].v is None or args[1].v is None):
        same = args[0].v is args[1].v
        return Const(same if t.op == "is" else not same)
    if t.op == "not" and len(args) == 1 and isinstance(args[0], Const):
        return Const(not args[0].v)
    if t.op == "phi" and len(args) == 3:
        return _phi(args[0], args[1], args[2], t.node)
    if t.op == "eff:if" and len(args) == 3 and isinstance(args[0], Const):
        return App("eff:seq", tuple((args[1] if args[0].v else args[2]).args), t.node)
    return App(t.op, args, t.node)


def specialise_outcome(ctx, fi, o):
    """The outcome with the parameters nobody sets replaced by their defaults (see unset_optional_params)."""
    from sa.terms import substitute
    unset = unset_optional_params(ctx, fi)
    if not unset:
        return o, {}
    mp = {Sym("param:" + n): Const(v) for n, v in unset.items()}
    f = lambda t: fold_term(substitute(t, mp)) if t is not None else None
    effs = []
    for e in o.effects:
        e2 = f(e)
        if isinstance(e2, App) and e2.op == "eff:seq":
            effs.extend(e2.args)
        else:
            effs.append(e2)
    conds = [c for c in (f(c) for c in o.conds) if not (isinstance(c, Const) and c.v)]
    return type(o)(o.kind, f(o.value), conds, effs, o.node, o.heap, o.env), unset
