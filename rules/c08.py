"""C08 — symbolic names and registry codes are in one-to-one correspondence (exhaustive table check)."""
from __future__ import annotations

import ast
import re

from sa.index import AnalysisError
from sa.schema import KeyRef, TypeRef
from sa.terms import App
from . import generic

EXPLANATION = ("static extraction of every vocabulary table (Metadata maps / enum children / key classes / enums "
               "restated in ncs/) from the current source and exhaustive comparison with a registry written from the "
               "specifications; generic lookup code checked to use the same table in both directions; "
               "no repository code executed")


def _norm(s: str) -> str:
    return re.sub(r"[-_ ]", "", s).lower()


def run(ctx):
    generic.value_slot_naming(ctx)
    R = ctx.report
    S = ctx.schema
    reg = ctx.reference("registry.json")
    spaces = reg["spaces"]
    ctx.use_files("suit_generator/suit/types/keys.py", "suit_generator/suit/types/common.py",
                  "suit_generator/suit/manifest.py", "suit_generator/suit/security.py",
                  "suit_generator/suit/envelope.py", "suit_generator/suit/payloads.py", "ncs/sign_script.py",
                  "ncs/encrypt_script.py")
    R.exhaustive = True

    r_struct = R.rule("C08-0 schema well-formed", 1, "metadata literals are fresh, patches at module level")
    for msg, mod, node in S.problems:
        R.fail("C08-0 schema well-formed", msg, mod=mod, node=node, function=mod.name, expected="fresh Metadata(...) literal",
               found=msg)
    if not S.problems:
        R.ok("C08-0 schema well-formed", f"{len(S.meta)} metadata literals, {len(S.patch_stmts)} patches")

    # ---- every key class has a constant name (and id when used in a coded position)
    R.rule("C08-a key constants", 100, "each key class carries constant id/name")
    key_classes = [c for c in S.keys_mod.classes.values() if S.is_key_class(c)]
    # key classes defined in another module and imported into keys.py under their names
    repo = ctx.repo
    for nm_, (tm_, sym_) in S.keys_mod.imports.items():
        if sym_ == nm_ and tm_ in repo.modules and nm_ in repo.modules[tm_].classes and S.is_key_class(repo.modules[tm_].classes[nm_]):
            key_classes.append(repo.modules[tm_].classes[nm_])
    for kc in key_classes:
        kr = S.key_ref(kc)
        ok = isinstance(kr.name, str) and (kr.id is None or (isinstance(kr.id, int) and not isinstance(kr.id, bool)))
        R.check("C08-a key constants", ok, f"{kc.name}", mod=kc.module, node=kc.node, function=kc.fq,
                expected="name: str constant, id: int constant", found=f"name={kr.name!r} id={kr.id!r}")

    # ---- collect the key spaces from every class with its own metadata
    tables = []  # (owner ClassInfo, kind, [(KeyRef, TypeRef|None)])
    for fq, mi in S.meta.items():
        ci = mi.owner
        kind = S.kind(ci)
        if kind in ("kv", "pair"):
            ks = [(k, v) for k, v in (mi.map or []) if isinstance(k, KeyRef)]
            if ks:
                tables.append((ci, kind, ks, mi))
        elif kind == "enum":
            ks = [(k, None) for k in (mi.children or []) if isinstance(k, KeyRef)]
            if ks:
                tables.append((ci, kind, ks, mi))
    R.analysed["key_tables"] = len(tables)

    R.rule("C08-b uniqueness", 15, "codes pairwise distinct and names pairwise distinct inside each table")
    R.rule("C08-c registry", 120, "each (name, code) of each table equals the registry entry of its key space")
    R.rule("C08-d pseudo keys", 2, "integrated payload/dependency pseudo keys are negative and never registered codes")
    pair_count = 0
    table_space = {}
    pseudo = reg["pseudo"]
    for ci, kind, ks, mi in tables:
        ids = [k.id for k, _ in ks]
        names = [k.name for k, _ in ks]
        dup_ids = sorted({i for i in ids if ids.count(i) > 1}, key=repr)
        dup_names = sorted({n for n in names if names.count(n) > 1}, key=repr)
        R.check("C08-b uniqueness", not dup_ids and not dup_names, f"table of {ci.name}", mod=ci.module, node=mi.node,
                function=ci.fq, construct=f"{ci.name}: {sorted(zip(map(str, names), map(str, ids)))}",
                expected="pairwise distinct codes and names", found=f"duplicate codes {dup_ids} names {dup_names}")
        # match the table to a registry space by name overlap, falling back to code overlap
        nameset = {n for n in names if isinstance(n, str)}
        best = sorted(((len(nameset & set(sp)), spn) for spn, sp in spaces.items()), reverse=True)
        if best[0][0] == 0:
            R.info(f"table {ci.name}: no registered name — unverified extension ({sorted(map(str, names))[:4]}…)")
            continue
        if len(best) > 1 and best[0][0] == best[1][0]:
            raise AnalysisError(f"table {ci.name} matches registry spaces {best[0][1]} and {best[1][1]} equally")
        spn = best[0][1]
        table_space[ci.fq] = spn
        sp = spaces[spn]
        rev = {v: k for k, v in sp.items()}
        for k, _ in ks:
            pair_count += 1
            inst = f"{spn}: {k.name} = {k.id} (table {ci.name})"
            where = dict(mod=k.cls.module, node=k.cls.node, function=k.cls.fq,
                         construct=f"{spn}|{ci.name}|{k.name}|{k.id}")
            if k.name in pseudo:
                R.check("C08-d pseudo keys", k.id == pseudo[k.name] and k.id not in rev, inst, **where,
                        expected=f"pseudo key {k.name} = {pseudo[k.name]} (never on the wire)", found=f"{k.id}")
                continue
            if k.name in sp:
                R.check("C08-c registry", sp[k.name] == k.id, inst, **where,
                        expected=f"{k.name} -> {sp[k.name]}", found=f"{k.name} -> {k.id}")
            elif k.id in rev:
                known = {(kf["what"]) for kf in []}
                R.fail("C08-c registry", inst, **where, expected=f"code {k.id} is registered as {rev[k.id]!r} in {spn}",
                       found=f"bound to name {k.name!r}")
            else:
                R.info(f"unverified extension in {spn}: {k.name} = {k.id}")
    R.analysed["name_code_pairs"] = pair_count

    # ---- registry coverage: every registered name of a matched space is offered by some table of that space
    R.rule("C08-e coverage", 100, "every registered (space, name) is offered by a table of that space")
    offered = {}
    for ci, kind, ks, mi in tables:
        spn = table_space.get(ci.fq)
        if spn:
            offered.setdefault(spn, set()).update(k.name for k, _ in ks)
    for spn, sp in spaces.items():
        for name, code in sp.items():
            inst = f"{spn}: {name}"
            if spn not in offered:
                raise AnalysisError(f"registry space {spn} has no table in the source")
            if name in offered[spn]:
                R.ok("C08-e coverage", inst)
            else:
                # a registered code bound to another name is already reported by C08-c; report the missing name once
                anchor = next(ci for ci, *_ in tables if table_space.get(ci.fq) == spn)
                R.fail("C08-e coverage", inst, mod=anchor.module, node=None, line=anchor.node.lineno, function=anchor.fq,
                       construct=f"{spn}|{name}", expected=f"name {name!r} (code {code}) accepted in key space {spn}",
                       found="no table of this key space offers the name")

    # ---- shared code spaces: alternatives of a union of pair nodes share one wire code space (commands)
    R.rule("C08-f shared code space", 1, "condition and directive codes are disjoint (one code space on the wire)")
    for fq, mi in S.meta.items():
        if S.kind(mi.owner) != "union":
            continue
        alts = [c for c in (mi.children or []) if isinstance(c, TypeRef) and c.cls is not None and c.wrap == 0
                and S.kind(c.cls) == "pair"]
        if len(alts) >= 2:
            seen = {}
            clash = []
            for alt in alts:
                ami = S.metadata_of(alt.cls)
                for k, _ in (ami.map or []):
                    if isinstance(k, KeyRef):
                        if k.id in seen and seen[k.id] != k.name:
                            clash.append((k.id, seen[k.id], k.name))
                        seen[k.id] = k.name
            R.check("C08-f shared code space", not clash, f"union {mi.owner.name}", mod=mi.owner.module, node=mi.node,
                    function=mi.owner.fq, construct=f"{mi.owner.name}: {sorted(clash)}",
                    expected="disjoint codes across the alternatives", found=f"clashes {clash}")

    # ---- a name that occurs in two spaces carries the same code in both
    R.rule("C08-g multi-space names", 6, "a name offered in two key spaces has one code")
    byname = {}
    for ci, kind, ks, mi in tables:
        for k, _ in ks:
            byname.setdefault(k.name, set()).add((table_space.get(ci.fq, ci.name), k.id))
    for name, occ in sorted(byname.items(), key=lambda x: str(x[0])):
        sp_names = {s for s, _ in occ}
        if len(sp_names) > 1:
            codes = {c for _, c in occ}
            R.check("C08-g multi-space names", len(codes) == 1, f"{name} in {sorted(map(str, sp_names))}",
                    construct=f"{name}|{sorted(map(str, occ))}", function="keys", expected="one code",
                    found=f"codes {sorted(codes)}", file="suit_generator/suit/types/keys.py", line=0)

    # ---- reporting-policy bits: distinct powers of two inside the bitfield width
    R.rule("C08-h policy bits", 4, "policy bits are distinct powers of two within the declared width")
    for fq, mi in S.meta.items():
        if table_space.get(fq) == "policy-bits":
            users = [c for c in ctx.repo.all_classes() if S.kind(c) == "bits" and ctx.repo.class_attr(c, "_bit_class")
                     and ctx.repo.class_of_expr(ctx.repo.class_attr(c, "_bit_class")[1].module,
                                                ctx.repo.class_attr(c, "_bit_class")[0]) == mi.owner]
            width = min([S.class_const(u, "_bit_length") for u in users] or [reg["policy_bits_width"]])
            for k in mi.children:
                ok = isinstance(k.id, int) and k.id > 0 and (k.id & (k.id - 1)) == 0 and k.id < (1 << width)
                R.check("C08-h policy bits", ok and width == reg["policy_bits_width"], f"{k.name} = {k.id} (width {width})",
                        mod=k.cls.module, node=k.cls.node, function=k.cls.fq,
                        expected=f"power of two below 2^{reg['policy_bits_width']}", found=f"{k.id}, width {width}")

    # ---- tags
    R.rule("C08-i tags", 4, "CBOR tag numbers by tag name")
    for fq, mi in S.meta.items():
        if mi.tag is not None:
            value, name = mi.tag
            if name in reg["tags"]:
                R.check("C08-i tags", value == reg["tags"][name], f"{mi.owner.name}: tag {name} = {value}",
                        mod=mi.owner.module, node=mi.node, function=mi.owner.fq, construct=f"tag|{name}|{value}|{mi.owner.name}",
                        expected=f"{reg['tags'][name]}", found=f"{value}")
            else:
                rev = {v: k for k, v in reg["tags"].items()}
                if value in rev:
                    R.fail("C08-i tags", f"{mi.owner.name}: tag {name} = {value}", mod=mi.owner.module, node=mi.node,
                           function=mi.owner.fq, expected=f"tag {value} is {rev[value]}", found=f"named {name}")
                else:
                    R.info(f"unverified tag {name} = {value}")
    for name in reg["tags"]:
        if not any(mi.tag and mi.tag[1] == name for mi in S.meta.values()):
            R.fail("C08-i tags", f"tag {name} not declared", file="suit_generator/suit", line=0, function="tags",
                   construct=f"missing|{name}", expected=f"a tag node named {name}", found="none")

    # ---- generic lookup code uses the same table in both directions
    R.rule("C08-j generic lookup", 9, "generic nodes look up by name when encoding a description and by id when decoding")
    generic.lookup_attribute_facts(ctx, "C08-j generic lookup")
    R.rule("C08-k enum node", 3, "enum node converts between name and id over one children list")
    generic.enum_facts(ctx, "C08-k enum node")
    R.rule("C08-l tag node", 4, "tag node uses the declared tag number / name")
    generic.tag_facts(ctx, "C08-l tag node")

    # ---- codes restated in ncs/
    restated(ctx, reg, spaces)


def restated(ctx, reg, spaces):
    R = ctx.report
    ev = ctx.ev
    R.rule("C08-m restated enums", 18, "COSE/SUIT codes restated in ncs/ equal keys.py and the registry")
    allnames = {}
    for spn in ("cose-algorithms", "cose-digest-algorithms"):
        for n, c in spaces[spn].items():
            allnames[_norm(n)] = (n, c)
    for modname in ("ncs.sign_script", "ncs.encrypt_script"):
        m = ctx.repo.mod(modname)
        for ci in m.classes.values():
            if not ev.is_enum(ci):
                continue
            members = ev.enum_members(ci)
            if ci.name.startswith("SuitCose"):
                for name, val in members:
                    key = _norm(name)
                    inst = f"{modname}:{ci.name}.{name}"
                    if key in allnames:
                        n, c = allnames[key]
                        R.check("C08-m restated enums", getattr(val, "v", None) == c, inst, mod=m, node=ci.attr_nodes[name],
                                function=ci.fq, expected=f"{n} = {c}", found=f"{val!r}")
                    else:
                        R.info(f"restated enum member {inst} has no registry counterpart")
            elif ci.name == "SuitIds":
                for name, val in members:
                    inst = f"{modname}:{ci.name}.{name}"
                    if name in reg["restated"]:
                        spn, kn = reg["restated"][name]
                        R.check("C08-m restated enums", getattr(val, "v", None) == spaces[spn][kn], inst, mod=m,
                                node=ci.attr_nodes[name], function=ci.fq, expected=f"{kn} = {spaces[spn][kn]}",
                                found=f"{val!r}")
                    else:
                        R.info(f"restated id {inst} has no registry counterpart")
