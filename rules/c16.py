"""C16 — update-candidate info and DFU partition images describe the envelope file."""
from __future__ import annotations

import ast

from sa.absint import Evaluator, all_effects
from sa.index import AnalysisError
from sa.terms import App, Const, Ref, Sym, cat_parts, list_items, subterms
from . import argname, generic
from .layout import find_effect_calls

EXPLANATION = ("end-to-end abstract evaluation of ImageCreator.create_files_for_update (helpers inlined): the struct format "
               "and the value list are folded for symbolic cache count, field provenance (partition address, size of the "
               "same input file) and placement are compared with the reference record; argument plumbing from the CLI and "
               "ncs/build.py checked by name; no repository code executed")

IMG = "suit_generator.cmd_image"
MAGIC = 0x55AA55AA


def parse_format(fmt):
    """fmt term -> (byte order, fixed codes, repeated unit codes, repeat count term) or None."""
    parts = cat_parts(fmt)
    fixed = ""
    rep_unit, rep_k = "", None
    for p in parts:
        if isinstance(p, Const) and isinstance(p.v, str):
            if rep_k is not None:
                return None
            fixed += p.v
        elif isinstance(p, App) and p.op == "repeat" and isinstance(p.args[0], Const) and isinstance(p.args[0].v, str) \
                and rep_k is None:
            rep_unit, rep_k = p.args[0].v, p.args[1]
        else:
            return None
    order = fixed[:1] if fixed[:1] in "<>=!@" else "@"
    codes = fixed[1:] if fixed[:1] in "<>=!@" else fixed
    return order, codes, rep_unit, rep_k



def _record_shape_rules(ctx, top, fq, fbt, data):
    """Proof form of C16-D1a/b: one struct pack whose format string and value list agree for a symbolic cache count."""
    R = ctx.report
    P = lambda n: Sym("param:" + n)
    pack = data
    fmt, values = None, None
    if isinstance(pack, App) and pack.op == "meth:pack" and isinstance(pack.args[0], App) \
            and pack.args[0].op == "call:struct.Struct":
        sargs = [a for a in pack.args[0].args if not (isinstance(a, Const) and isinstance(a.v, tuple) and a.v[:1] == ("site",))]
        fmt, values = sargs[0], list(pack.args[1:])
    elif isinstance(pack, App) and pack.op == "call:struct.pack":
        fmt, values = pack.args[0], list(pack.args[1:])
    if fmt is None:
        raise AnalysisError(f"{fq}: record is not produced by struct packing: {pack!r}"[:300])
    pf = parse_format(fmt)
    if pf is None:
        raise AnalysisError(f"{fq}: struct format not foldable: {fmt!r}"[:300])
    order, codes, unit, k = pf
    R.rule("C16-D1a record format", 4, "little-endian 32-bit fields; field count equals value count for every cache count")
    R.check("C16-D1a record format", order == "<", "byte order", mod=top.module, node=fbt.node, function=fq,
            expected="'<' (little endian, no alignment)", found=repr(order))
    R.check("C16-D1a record format", set(codes + unit) <= {"I"} and len(codes) > 0, "field width", mod=top.module, node=fbt.node,
            function=fq, expected="all fields 'I' (unsigned 32 bit)", found=f"{codes!r} + k*{unit!r}")
    fixed_vals, rep_vals = [], None
    for v in values:
        if isinstance(v, App) and v.op == "star":
            inner = v.args[0]
            if isinstance(inner, App) and inner.op == "repeat":
                rep_vals = (list_items(inner.args[0]), inner.args[1])
            else:
                rep_vals = (None, inner)
        else:
            if rep_vals is not None:
                fixed_vals.append(App("after-star", (v,)))
            else:
                fixed_vals.append(v)
    cnt_ok = len(fixed_vals) == len(codes) and (
        (rep_vals is None and k is None) or
        (rep_vals is not None and k is not None and rep_vals[0] is not None and len(rep_vals[0]) == len(unit) and rep_vals[1] == k))
    R.check("C16-D1a record format", cnt_ok, "field count = value count for symbolic cache count", mod=top.module, node=fbt.node,
            function=fq, expected=f"{len(codes)} fixed + k x {len(unit)} repeated on both sides with the same k",
            found=f"{len(fixed_vals)} fixed values; repeated {rep_vals!r}; format repeat {k!r}"[:300])
    R.check("C16-D1a record format", k == P("dfu_max_caches"), "number of cache entries", mod=top.module, node=fbt.node, function=fq,
            expected="dfu_max_caches", found=repr(k))

    R.rule("C16-D1b record values", 5, "magic, one region, partition address, size of the envelope file, zeroed cache entries")
    want = [Const(MAGIC), Const(1), P("dfu_partition_address"), App("call:os.path.getsize", (P("input_file"),))]
    names = ["magic 0x55AA55AA", "number of regions = 1", "envelope address = dfu_partition_address",
             "envelope size = os.path.getsize(input_file)"]
    for i, (w, nme) in enumerate(zip(want, names)):
        got = fixed_vals[i] if i < len(fixed_vals) else None
        R.check("C16-D1b record values", got == w, nme, mod=top.module, node=fbt.node, function=fq, expected=repr(w),
                found=repr(got), key_extra=str(i))
    zeros = rep_vals is not None and rep_vals[0] is not None and all(x == Const(0) for x in rep_vals[0])
    R.check("C16-D1b record values", zeros, "cache entries are zero", mod=top.module, node=fbt.node, function=fq,
            expected="[0, 0] per cache", found=repr(rep_vals))

def run(ctx):
    R = ctx.report
    generic.cli_converters(ctx, "C16-D3b CLI converters", "suit_generator.cmd_image", 4)
    generic.subcommand_dispatch(ctx, "C16-D3c sub-command dispatch", "suit_generator.cmd_image", 2)
    generic.kwargs_keys_are_dests(ctx, "C16-D3d keyword reads are option destinations", "suit_generator.cmd_image")
    _u32 = [0, 1, 15, 16, 0x0E1EF340, 0x7FFFFFFF, 0x80000000, 0x80000001, 0xFFFFFFF0, 0xFFFFFFFF]
    generic.no_refusal_on_grid(ctx, "C16-D4 no legal address or cache count is refused", ctx.repo.func(IMG, "ImageCreator.create_files_for_update"),
                               {"update_candidate_info_address": _u32, "dfu_partition_address": _u32, "dfu_max_caches": [0, 1, 2, 6, 15, 16]},
                               inline_depth=3, what="32-bit addresses and cache counts 0..16")
    repo = ctx.repo
    ctx.use_files("suit_generator/cmd_image.py", "ncs/build.py")
    ev = Evaluator(repo, inline_depth=5)
    top = repo.func(IMG, "ImageCreator.create_files_for_update")
    fq = ctx.fq(top)
    outs = ev.outcomes(top)
    rets = [o for o in outs if o.kind == "return"]
    rets = generic.sole_outcome(ctx, rets, f"{fq}: expected one normal outcome, found {len(rets)}")
    o = rets[0]
    P = lambda n: Sym("param:" + n)

    fb = find_effect_calls(o.effects, "meth:frombytes")
    wr = find_effect_calls(o.effects, "meth:write_hex_file")
    if len(fb) == 0 or len(wr) == 0:
        generic.absent(ctx, "update-candidate record", top, "frombytes(record, address) and write_hex_file(storage_output_file)",
                       "the storage hex file is not produced")
    if len(fb) > 1 and len(wr) == 1 and all(x.args[0] == wr[0].args[0] for x in fb):
        from sa.index import Abort
        R.rule("C16-D1c record placement", 1, "record alone at update_candidate_info_address, written to storage_output_file")
        R.fail("C16-D1c record placement", "nothing else is put into the storage file", mod=top.module, node=fb[1].node, function=fq,
               expected="only the update-candidate record", found=f"{len(fb)} frombytes into the storage hex object: {repr(fb[1])[:200]}")
        raise Abort()
    if len(fb) != 1 or len(wr) != 1:
        raise AnalysisError(f"{fq}: storage hex effects not recognised ({len(fb)} frombytes, {len(wr)} write_hex_file)")
    fbt, wrt = fb[0], wr[0]
    hexobj, data = fbt.args[0], fbt.args[1]
    off = fbt.args[2] if len(fbt.args) > 2 else None

    # decided by evaluating the record on a grid of addresses, envelope sizes and cache counts (whatever way the bytes are produced:
    # one pack, a packed header padded with zeros, ...); the rules over the format string and the value list are the proof form
    import struct as _struct
    from sa.teval import teval as _teval, Unknown as _Unknown, Raised as _Raised
    size_t = App("call:os.path.getsize", (P("input_file"),))
    grid_bad, grid_n, grid_decided = None, 0, True
    try:
        for addr_ in (0, 0x0E1EF340, 0xFFFFFFFF):
            for size_ in (0, 1, 0x12345, 0xFFFFFFFF):
                for n_ in (0, 1, 2, 6, 16):
                    env = {"param:dfu_partition_address": addr_, size_t: size_, "param:dfu_max_caches": n_, **generic.loops_env(o, data)}
                    got = _teval(data, env)
                    want_ = _struct.pack("<IIII" + "II" * n_, MAGIC, 1, addr_, size_, *([0] * (2 * n_)))
                    grid_n += 1
                    if bytes(got) != want_ and grid_bad is None:
                        grid_bad = f"address {addr_:#x}, size {size_:#x}, {n_} caches: {bytes(got).hex()[:96]}"
    except (_Unknown, _Raised, TypeError, ValueError):
        grid_decided = False
    if grid_decided:
        R.rule("C16-D1g record bytes on a grid", 1, "magic, 1, partition address, envelope size, then two zero words per cache; little-endian 32-bit words")
        R.check("C16-D1g record bytes on a grid", grid_bad is None, f"{grid_n} combinations of address / size / cache count", mod=top.module,
                node=fbt.node, function=fq, expected="<IIII + II per cache: 0x55AA55AA, 1, dfu_partition_address, getsize(input_file), 0 ...",
                found=grid_bad or "")
    import contextlib
    try:
        with (R.lenient("decided by evaluating the record on a grid of addresses, sizes and cache counts (C16-D1g)") if grid_decided else contextlib.nullcontext()):
            _record_shape_rules(ctx, top, fq, fbt, data)
    except AnalysisError:
        if not grid_decided:
            raise
        R.infos.append("record not produced by one struct pack: the format / value-list rules do not apply; record decided on the grid (C16-D1g)")

    R.rule("C16-D1c record placement", 3, "record alone at update_candidate_info_address, written to storage_output_file")
    R.check("C16-D1c record placement", off == P("update_candidate_info_address"), "address", mod=top.module, node=fbt.node,
            function=fq, expected="update_candidate_info_address", found=repr(off))
    R.check("C16-D1c record placement", wrt.args[0] == hexobj and wrt.args[1] == P("storage_output_file"), "output file",
            mod=top.module, node=wrt.node, function=fq, expected="write_hex_file(storage_output_file) on the record's hex object",
            found=repr(wrt)[:200])
    from .c11 import _with_guards
    guarded = [(e.args[0].op, g) for e, g in _with_guards(o.effects) if isinstance(e, App) and e.op == "eff:call" and isinstance(e.args[0], App)
               and (e.args[0].op in ("meth:frombytes", "meth:write_hex_file") or e.args[0].op.endswith("bin2hex")) and g]
    R.check("C16-D1c record placement", not guarded, "both files are written on every normal path (no condition skips a write)", mod=top.module,
            node=fbt.node, function=fq, expected="unconditional frombytes / write_hex_file / bin2hex",
            found=f"{[(op_, [repr(c)[:60] for c, _ in g]) for op_, g in guarded][:2]}")
    fresh = isinstance(hexobj, App) and hexobj.op.startswith("call:") and hexobj.op.endswith("IntelHex") and not any(
        not (isinstance(a_, Const) and isinstance(a_.v, tuple) and a_.v[:1] == ("site",)) and not (isinstance(a_, App) and a_.op == "tuple") for a_ in hexobj.args)
    R.check("C16-D1c record placement", fresh, "the record goes into an empty hex object created by this call", mod=top.module, node=fbt.node,
            function=fq, expected="IntelHex() constructed inside the call", found=repr(hexobj)[:160])
    others = [e for e in all_effects(o.effects) if isinstance(e, App) and e.op in ("eff:call", "eff:setattr", "eff:store")
              and e.args and ((e.op == "eff:call" and isinstance(e.args[0], App) and e.args[0].op.startswith("meth:")
                               and e.args[0].args and e.args[0].args[0] == hexobj
                               and e.args[0].op not in ("meth:frombytes", "meth:write_hex_file"))
                              or (e.op != "eff:call" and e.args[0] == hexobj))]
    R.check("C16-D1c record placement", not others, "nothing else is put into the storage file", mod=top.module, node=fbt.node,
            function=fq, expected="only the record", found=f"{others}"[:300])

    R.rule("C16-D2a partition image", 2, "bin2hex(input_file, dfu_partition_output_file, dfu_partition_address); failure raises")
    b2h = [e.args[0] for e in all_effects(o.effects) if isinstance(e, App) and e.op == "eff:call" and isinstance(e.args[0], App)
           and e.args[0].op == "call:intelhex.bin2hex"]
    if len(b2h) == 0:
        generic.absent(ctx, "DFU partition image", top, "bin2hex(input_file, dfu_partition_output_file, dfu_partition_address)",
                       "the DFU partition hex file is not produced")
    if len(b2h) != 1:
        raise AnalysisError(f"{fq}: bin2hex call not recognised")
    b = b2h[0]
    kws = {a.args[0].v: a.args[1] for a in b.args if isinstance(a, App) and a.op == "kw"}
    pos = [a for a in b.args if not (isinstance(a, App) and a.op == "kw")]
    fin = pos[0] if pos else kws.get("fin")
    fout = pos[1] if len(pos) > 1 else kws.get("fout")
    offset = pos[2] if len(pos) > 2 else kws.get("offset")
    R.check("C16-D2a partition image", (fin, fout, offset) == (P("input_file"), P("dfu_partition_output_file"), P("dfu_partition_address")),
            "the same input file, loaded at the partition address", mod=top.module, node=b.node, function=fq,
            expected="bin2hex(input_file, dfu_partition_output_file, dfu_partition_address)", found=repr(b)[:200])
    mr = [e for e in all_effects(o.effects) if isinstance(e, App) and e.op == "eff:may_raise"]
    checked = any(any(isinstance(x, App) and x.op == "exc" and any(s == b for s in subterms(x.args[1])) for x in e.args) for e in mr)
    R.check("C16-D2a partition image", checked, "a non-zero bin2hex result raises", mod=top.module, node=b.node, function=fq,
            expected="raise GeneratorError when bin2hex reports an error", found="result ignored")

    R.rule("C16-D2b argument plumbing", 12, "CLI and build glue pass each value to the parameter of the same name")
    n = argname.check_function(ctx, "C16-D2b argument plumbing", repo.func(IMG, "main"))
    n += argname.check_module_main_block(ctx, "C16-D2b argument plumbing", repo.mod("ncs.build"))
    if n < 12:
        raise AnalysisError(f"only {n} named bindings recognised in cmd_image.main / ncs/build.py")
