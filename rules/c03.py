"""C03 — parse then create reproduces the envelope (structural necessary conditions)."""
from __future__ import annotations

import ast

from sa.absint import Evaluator, all_effects
from sa.callgraph import CallGraph
from sa.index import AnalysisError, walk_no_nested
from sa.schema import TypeRef
from rules.setuse import parents_of
from sa.terms import App, Const, Ref, Sym, cases, contains, dict_pairs, subterms
from . import c02, generic

EXPLANATION = ("four structural necessary conditions of the round trip: (1) for every node type the keys its to_obj can emit "
               "are keys its from_obj accepts and paired conversions are inverses (hex/unhex, json dumps/loads, name/id over one "
               "table); (2) every dump of the parse output keeps key order, format tables are symmetric, hierarchy expansion "
               "replaces a dependency only by the parse of that same value and YAML anchors precede aliases; (3) union "
               "alternatives and their order equal the reference shape (they decide which alternative a byte string is parsed "
               "as); (4) validator symmetry between the from_cbor and from_obj entry points of each leaf type; "
               "no repository code executed")

COMMON = "suit_generator.suit.types.common"
IO = "suit_generator.input_output"
P = lambda n: Sym("param:" + n)


def run(ctx):
    R = ctx.report
    repo = ctx.repo
    ctx.use_files("suit_generator/suit/types/common.py", "suit_generator/suit/manifest.py", "suit_generator/suit/security.py",
                  "suit_generator/input_output.py", "suit_generator/envelope.py", "suit_generator/cmd_parse.py", "suit_generator/cmd_create.py")
    key_agreement(ctx)
    whole_item_decoded(ctx)
    dependency_classification(ctx)
    text_formats(ctx)
    union_order(ctx)
    validator_symmetry(ctx)
    optional_header_forms(ctx)


def _loop_env(outs_):
    loops, louts = {}, {}

    def collect(effs):
        for e_ in effs:
            if isinstance(e_, App) and e_.op == "eff:loop":
                if getattr(e_.node, "lineno", None) is not None:
                    loops[e_.node.lineno] = (e_.args[0], e_.node.iter.id if isinstance(e_.node, ast.For) and isinstance(e_.node.iter, ast.Name) else None)
                    if len(e_.args) > 2:
                        for kv in e_.args[2].args:
                            louts.setdefault(e_.node.lineno, {})[kv.args[0].v] = kv.args[1]
                collect(e_.args[1].args)
            elif isinstance(e_, App) and e_.op == "eff:if":
                collect(e_.args[1].args)
                collect(e_.args[2].args)
            elif isinstance(e_, App) and e_.op in ("eff:alts", "eff:partial"):
                for a_ in e_.args:
                    collect(a_.args if isinstance(a_, App) else [])
    for o in outs_:
        collect(o.effects)
        for t_ in [o.value] + list(all_effects(o.effects)):
            if t_ is None:
                continue
            for s_ in subterms(t_):
                if isinstance(s_, App) and s_.op == "loopout" and len(s_.args) == 3:
                    louts.setdefault(s_.args[1].v, {})[s_.args[0].v] = s_.args[2]
    return {"__loops__": loops, "__loopouts__": louts}


def _star_round_trip(touts, fouts_):
    """(renders name1..nameN in order, re-collects them in order) decided by evaluation, or None when not evaluable."""
    from sa.teval import Stub, Unknown, teval
    if len(touts) != 1 or len(fouts_) != 1:
        return None
    mself = App("attr:map", (App("attr:_metadata", (Sym("param:self"),)),))
    mcls = App("attr:map", (App("attr:_metadata", (Sym("param:cls"),)),))
    table = {"first": Stub("T-first"), "item*": Stub("T-item")}
    render_ok, collect_ok = True, True
    try:
        for n in (1, 2, 3, 5):
            elems = [Stub(f"e{i}") for i in range(n)]
            env = {mself: dict(table), App("attr:value", (Sym("param:self"),)): elems, **_loop_env(touts)}
            got = teval(touts[0].value, env)
            names = ["first"] + [f"item{i}" for i in range(1, n)]
            want = {nm: ("to_obj", f"e{i}") for i, nm in enumerate(names)}
            if not isinstance(got, dict) or list(got.items()) != list(want.items()):
                render_ok = False
            obj = {nm: f"v-{nm}" for nm in names}
            env2 = {mcls: dict(table), "param:obj": obj, "param:cls": (lambda v_: ("cls", list(v_))), **_loop_env(fouts_)}
            got2 = teval(fouts_[0].value, env2)
            want2 = ("cls", [("from_obj", "T-first" if nm == "first" else "T-item", obj[nm]) for nm in names])
            if got2 != want2:
                collect_ok = False
    except Unknown:
        return None
    except Exception:
        return None
    return render_ok, collect_ok


def optional_header_forms(ctx):
    """SuitHeaderMapOptional.from_obj chooses the alternative itself (it does not try the children in order): what parse renders for each
    alternative - '' for the zero-length byte string, a dict for a header map - must select that very alternative again, or the
    re-created protected header is another byte string (`40` vs `41 a0`) and the manifest digest changes.  Decided by evaluating the
    function's outcomes on sample descriptions (whatever the nesting / naming of its tests)."""
    R = ctx.report
    repo = ctx.repo
    fi = repo.func("suit_generator.suit.security", "SuitHeaderMapOptional.from_obj")
    fq = ctx.fq(fi)
    R.rule("C03-D1e optional header forms", 5, "'' / b'' / {} -> the empty byte string alternative; a non-empty dict -> the header map; anything else is refused")
    outs = Evaluator(repo, inline_depth=0).outcomes(fi)
    OBJ = Sym("param:obj")
    samples = [("", "SuitEmptyBstr"), (b"", "SuitEmptyBstr"), ({}, "SuitEmptyBstr"), ({"suit-cose-algorithm-id": "cose-alg-a128kw"}, "SuitHeaderMap"), (5, None),
               ("00", None)]
    for smp, want in samples:
        facts = {"param:obj": smp}
        try:
            taken = generic.taken_outcomes(outs, facts, strict=True)
        except AnalysisError as e:
            raise AnalysisError(f"{fq}: {e}")
        got = []
        for o in taken:
            if o.kind != "return":
                got.append(None)
                continue
            for v in generic.select_alternatives(o.value, facts):
                # cls(<Child>.from_obj(<arg>)): the child class and what it is given
                child, arg = "?", None
                for s_ in subterms(v):
                    if isinstance(s_, App) and s_.op == "call" and isinstance(s_.args[0], Ref) and getattr(s_.args[0].obj, "name", "") == "from_obj":
                        cl = [a_ for a_ in s_.args[1:] if isinstance(a_, Ref) and a_.kind == "class"]
                        child = cl[0].obj.name if cl else "?"
                        arg = s_.args[-1]
                if child == "SuitEmptyBstr" and arg not in (Const(""), Const(b"")) and not (arg == OBJ and smp in ("", b"")):
                    child = f"SuitEmptyBstr given {arg!r}"
                if child == "SuitHeaderMap" and arg != OBJ and not (isinstance(arg, App) and arg.op == "phi"):
                    child = f"SuitHeaderMap given {arg!r}"
                got.append(child)
        R.check("C03-D1e optional header forms", bool(got) and all(g_ == want for g_ in got), f"{smp!r} -> {want or 'ValueError'}", mod=fi.module, node=fi.node,
                function=fq, expected=f"{want or 'raise ValueError'}", found=f"{got}", key_extra=repr(smp))


# ---------------------------------------------------------------------------------------------- D1
def _accepted_keys(fi, repo=None, _depth=0, _seen=None):
    """String constants tested with `in obj` / `in obj.keys()` or used as subscripts in a from_obj body - and in the functions of
    the repository it calls (the body may live in a helper, possibly in another module)."""
    out = set()
    _seen = _seen if _seen is not None else set()
    _seen.add(id(fi.node))
    if repo is not None and _depth < 2:
        for n in ast.walk(fi.node):
            if isinstance(n, ast.Call) and isinstance(n.func, (ast.Name, ast.Attribute)):
                r = repo.resolve_expr(fi.module, n.func)
                if r is None and isinstance(n.func, ast.Attribute) and isinstance(n.func.value, ast.Name) and n.func.value.id in ("cls", "self") and fi.cls is not None:
                    g_ = repo.lookup_method(fi.cls, n.func.attr)
                    r = ("func", g_) if g_ is not None else None
                if r and r[0] == "func" and id(r[1].node) not in _seen and r[1].name not in ("from_obj", "to_obj", "from_cbor", "to_cbor"):
                    out |= _accepted_keys(r[1], repo, _depth + 1, _seen)
    for n in ast.walk(fi.node):
        if isinstance(n, ast.Compare) and len(n.ops) == 1 and isinstance(n.ops[0], (ast.In, ast.NotIn)) \
                and isinstance(n.left, ast.Constant) and isinstance(n.left.value, str):
            out.add(n.left.value)
        if isinstance(n, ast.Subscript) and isinstance(n.slice, ast.Constant) and isinstance(n.slice.value, str):
            out.add(n.slice.value)
    return out


def key_agreement(ctx):
    R = ctx.report
    repo = ctx.repo
    S = ctx.schema
    ev = Evaluator(repo, inline_depth=0)
    R.rule("C03-D1a writer/reader key agreement", 2, "keys emitted by a custom to_obj are accepted by the same class's from_obj")
    for ci in sorted(S.reachable(), key=lambda c: c.fq):
        if ci.module.name == COMMON:
            continue
        to_obj = ci.methods.get("to_obj")
        if to_obj is None:
            continue
        from_obj = repo.lookup_method(ci, "from_obj")
        outs = [o for o in ev.outcomes(to_obj) if o.kind == "return"]
        emitted = set()
        shaped = False
        for o in outs:
            dp = dict_pairs(o.value) if o.value is not None else None
            if dp is not None:
                shaped = True
                emitted |= {k.v for k, v in dp if isinstance(k, Const)}
        if not shaped:
            # list / passthrough renderers have no keys to agree on
            continue
        accepted = _accepted_keys(from_obj, repo) if from_obj is not None else set()
        R.check("C03-D1a writer/reader key agreement", emitted <= accepted, f"{ci.name}: emits {sorted(emitted)}", mod=ci.module,
                node=to_obj.node, function=ctx.fq(to_obj), expected=f"subset of the keys from_obj accepts {sorted(accepted)}",
                found=f"{sorted(emitted - accepted)} would be rejected when the parse output is fed to create")
    R.rule("C03-D1b inverse conversions of the generic nodes", 6, "hex<->unhex, json.dumps<->json.loads, star expansion, tag name, bit lists")
    # SuitBstr: to_obj = value.hex(); from_obj = cls(a2b_hex(obj))
    tb = repo.func(COMMON, "SuitBstr.to_obj")
    fb = repo.func(COMMON, "SuitBstr.from_obj")
    to = [o for o in ev.outcomes(tb) if o.kind == "return"]
    fo = [o for o in ev.outcomes(fb) if o.kind == "return"]
    hexv = App("meth:hex", (App("attr:value", (P("self"),)),))

    def is_hex(t):
        return t == hexv or (isinstance(t, App) and t.op in ("meth:upper", "meth:lower") and t.args[0] == hexv)

    ok = len(to) == 1 and all(is_hex(t) for g, t in cases(to[0].value)) and len(fo) == 1 \
        and isinstance(fo[0].value, App) and fo[0].value.op == "call" and fo[0].value.args[-1] == App("a2b_hex", (P("obj"),))
    R.check("C03-D1b inverse conversions of the generic nodes", ok, "byte strings: value.hex() <-> a2b_hex(text)", mod=tb.module, node=tb.node,
            function=ctx.fq(tb), expected="to_obj = value.hex() (full length); from_obj = cls(binascii.a2b_hex(obj))",
            found=f"{[repr(o.value)[:80] for o in to]} / {[repr(o.value)[:80] for o in fo]}")
    # SuitKeyValueUnnamed: key rendered with json.dumps when not text, read back with json.loads first
    kf = repo.func(COMMON, "SuitKeyValueUnnamed.from_cbor")
    ko = repo.func(COMMON, "SuitKeyValueUnnamed.from_obj")
    def ext_calls(fi_, dotted):
        return [n for n in ast.walk(fi_.node) if isinstance(n, ast.Call) and (lambda r: r and r[0] == "ext" and r[1] == dotted)(repo.resolve_expr(fi_.module, n.func))]
    par_f, par_o = parents_of(kf.node), parents_of(ko.node)
    dumps_ok = False
    for c in ext_calls(kf, "json.dumps"):
        # rendered only when the key's description is not text: guarded by a (negated) isinstance(<the same expression>, str)
        arg = ast.dump(c.args[0]) if c.args else None
        p_ = par_f.get(c)
        while p_ is not None and not isinstance(p_, ast.If):
            p_ = par_f.get(p_)
        if p_ is not None and arg:
            t_ = p_.test
            neg = isinstance(t_, ast.UnaryOp) and isinstance(t_.op, ast.Not)
            core = t_.operand if neg else t_
            in_body = any(c is x for st_ in p_.body for x in ast.walk(st_))
            if isinstance(core, ast.Call) and isinstance(core.func, ast.Name) and core.func.id == "isinstance" and len(core.args) == 2 \
                    and ast.dump(core.args[0]) == arg and isinstance(core.args[1], ast.Name) and core.args[1].id == "str" and (neg == in_body):
                dumps_ok = True
    loads_ok = False
    for c in ext_calls(ko, "json.loads"):
        # X.from_obj(json.loads(k)) inside a try whose ValueError handler falls back to X.from_obj(k) with the plain text
        outer = par_o.get(c)
        if not (isinstance(outer, ast.Call) and isinstance(outer.func, ast.Attribute) and outer.func.attr == "from_obj" and c in outer.args and c.args):
            continue
        t_ = par_o.get(outer)
        while t_ is not None and not isinstance(t_, ast.Try):
            t_ = par_o.get(t_)
        if t_ is None:
            continue
        karg = ast.dump(c.args[0])
        for h in t_.handlers:
            for x in ast.walk(h):
                if isinstance(x, ast.Call) and isinstance(x.func, ast.Attribute) and x.func.attr == "from_obj" and len(x.args) == 1 \
                        and ast.dump(x.args[0]) == karg and ast.dump(x.func.value) == ast.dump(outer.func.value):
                    loads_ok = True
    R.check("C03-D1b inverse conversions of the generic nodes", dumps_ok and loads_ok, "structured map keys: json.dumps <-> json.loads with plain-text fallback",
            mod=kf.module, node=kf.node, function=ctx.fq(kf), expected="non-text keys rendered with json.dumps and re-read with json.loads, text keys as they are",
            found=f"json.dumps under a not-text guard: {dumps_ok}; json.loads with plain fallback: {loads_ok}")
    tu = repo.func(COMMON, "SuitKeyValueUnnamed.to_obj")
    uo = [o for o in ev.outcomes(tu) if o.kind == "return"]
    ok = len(uo) == 1 and isinstance(uo[0].value, App) and uo[0].value.op == "comp:dict" and "meth:items" in repr(uo[0].value.args[1]) \
        and uo[0].value.args[2] == App("conds", ())
    R.check("C03-D1b inverse conversions of the generic nodes", ok, "unnamed maps render every entry (no filter)", mod=tu.module, node=tu.node,
            function=ctx.fq(tu), expected="{k: v[1].to_obj() for k, v in self.value.items()}", found=repr(uo[0].value)[:160] if uo else "?")
    # SuitTupleNamed: star expansion
    tt = repo.func(COMMON, "SuitTupleNamed.to_obj")
    ft = repo.func(COMMON, "SuitTupleNamed.from_obj")
    touts = [o for o in ev.outcomes(tt) if o.kind == "return"]
    fouts_ = [o for o in ev.outcomes(ft) if o.kind == "return"]
    V = App("attr:value", (P("self"),))
    star_store = False
    for o in touts:
        for e in all_effects(o.effects):
            if isinstance(e, App) and e.op == "eff:store" and e.args[2] == App("meth:to_obj", (App("elem", (V,)),)):
                for s_ in subterms(e.args[1]):
                    # name<N>: '*' replaced by str(<a counter that changes per repeated element>)
                    if isinstance(s_, App) and s_.op == "meth:replace" and len(s_.args) == 3 and s_.args[1] == Const("*") \
                            and isinstance(s_.args[2], App) and s_.args[2].op in ("str", "call:str") \
                            and contains(s_.args[2], lambda u: isinstance(u, App) and u.op == "loopvar"):
                        star_store = True
    prefix_sel = any(isinstance(s_, App) and s_.op == "meth:startswith" and isinstance(s_.args[1], App) and s_.args[1].op == "meth:replace"
                     and s_.args[1].args[1:] == (Const("*"), Const("")) for o in fouts_ for t_ in [o.value] + list(all_effects(o.effects)) for s_ in subterms(t_))
    # decided by evaluating both directions on a sample tuple type {first, item*} with one to four elements (whatever the way the
    # names are numbered / collected); the shape rules above are the fallback when the terms cannot be evaluated
    star_eval = _star_round_trip(touts, fouts_)
    if star_eval is not None:
        star_store, prefix_sel = star_eval
    R.check("C03-D1b inverse conversions of the generic nodes", star_store and prefix_sel,
            "repeated tuple element: name<N> emitted, names with that prefix collected in order", mod=tt.module, node=tt.node, function=ctx.fq(tt),
            expected="key.replace('*', str(running counter)) <-> startswith(key without '*')",
            found=f"numbered by a per-element counter: {star_store}; collected by prefix: {prefix_sel}")
    # SuitList / SuitBitfield / SuitUnion renderers keep every element

    def renders_all(o):
        v = o.value
        el = App("meth:to_obj", (App("elem", (V,)),))
        if isinstance(v, App) and v.op == "comp:list" and v.args[0] == el and v.args[1] == V and v.args[2] == App("conds", ()):
            return True
        if isinstance(v, App) and v.op == "loopout":
            loops = [e for e in o.effects if isinstance(e, App) and e.op == "eff:loop" and e.args[0] == V]
            for lp in loops:
                body = list(lp.args[1].args)
                if any(isinstance(b_, App) and b_.op == "eff:call" and isinstance(b_.args[0], App) and b_.args[0].op == "meth:append" and b_.args[0].args[1] == el
                       for b_ in body) and not any(isinstance(b_, App) and b_.op in ("eff:if", "eff:alts", "eff:assume") for b_ in body):
                    return True
        return False
    for q in ("SuitList.to_obj", "SuitBitfield.to_obj"):
        f = repo.func(COMMON, q)
        o_ = [o for o in ev.outcomes(f) if o.kind == "return"]
        R.check("C03-D1b inverse conversions of the generic nodes", len(o_) == 1 and renders_all(o_[0]), f"{q} renders every element", mod=f.module, node=f.node,
                function=ctx.fq(f), expected="[v.to_obj() for v in self.value] (no filter)", found=repr(o_[0].value)[:160] if o_ else "no outcome", key_extra=q)
    f = repo.func(COMMON, "SuitUnion.to_obj")
    o_ = [o for o in ev.outcomes(f) if o.kind == "return"]
    alts_ = {t for o in o_ for g_, t in cases(o.value)}
    R.check("C03-D1b inverse conversions of the generic nodes", bool(alts_) and alts_ <= {V, App("meth:to_obj", (V,))} and App("meth:to_obj", (V,)) in alts_,
            "SuitUnion.to_obj renders every element", mod=f.module, node=f.node, function=ctx.fq(f), expected="self.value.to_obj()",
            found=f"{[repr(a_)[:80] for a_ in alts_]}", key_extra="SuitUnion.to_obj")
    # no slicing / truncation / case change in any to_obj of the schema
    R.rule("C03-D1c renderers do not truncate", 10, "no to_obj slices, truncates or changes case")
    for ci in sorted(S.reachable(), key=lambda c: c.fq):
        f = ci.methods.get("to_obj")
        if f is None:
            continue
        bad = []
        for n in walk_no_nested(f.node):
            if isinstance(n, ast.Subscript) and isinstance(n.slice, ast.Slice) and ast.unparse(n) != "keys[:-1]":
                bad.append(ast.unparse(n))
            if isinstance(n, ast.Call) and isinstance(n.func, ast.Attribute) and n.func.attr in ("lower", "upper", "strip", "lstrip", "rstrip",
                                                                                                  "title", "capitalize", "swapcase", "casefold"):
                # the case of a hex rendering is immaterial (a2b_hex reads both)
                if n.func.attr in ("lower", "upper") and ast.unparse(n.func.value).endswith(".hex()"):
                    continue
                bad.append(ast.unparse(n))
        R.check("C03-D1c renderers do not truncate", not bad, ctx.fq(f), mod=f.module, node=f.node, function=ctx.fq(f),
                expected="the description names exactly the content", found=f"{bad}")
    for q in ("SuitObject.to_obj", "SuitKeyValue.to_obj", "SuitTag.to_obj", "SuitBstr.to_obj", "SuitKeyValueUnnamed.to_obj"):
        f = repo.func(COMMON, q)
        bad = [ast.unparse(n) for n in walk_no_nested(f.node) if isinstance(n, ast.Subscript) and isinstance(n.slice, ast.Slice)]
        R.check("C03-D1c renderers do not truncate", not bad, ctx.fq(f), mod=f.module, node=f.node, function=ctx.fq(f),
                expected="no slicing", found=f"{bad}")


def whole_item_decoded(ctx):
    """The decoder entry point accepts a byte string only when the CBOR item spans all of it.  cbor2.loads ignores bytes after the first
    item: a byte string whose prefix happens to be an integer / text item (raw content `05ab`, a UUID starting with 0x60) would be
    parsed as that shorter item by the trial decoding of the unions and re-created shorter."""
    R = ctx.report
    repo = ctx.repo
    R.rule("C03-D5 whole item decoded", 1, "deserialize_cbor raises when bytes remain after the decoded item")
    de = repo.func(COMMON, "SuitObject.deserialize_cbor")
    outs = Evaluator(repo, inline_depth=0).outcomes(de)
    param = [a.arg for a in de.node.args.args if a.arg not in ("cls", "self")][0]
    LEN = App("len", (P(param),))

    def consumed_fact(c):
        """a condition that relates the decoder's stream position to the length of the input"""
        has_len = any(s_ == LEN for s_ in subterms(c))
        has_pos = any(isinstance(s_, App) and s_.op in ("meth:tell", "meth:read", "meth:getbuffer") for s_ in subterms(c))
        return has_len and has_pos or (has_pos and any(isinstance(s_, App) and s_.op == "meth:read" for s_ in subterms(c)))
    rets = [o for o in outs if o.kind == "return"]
    guarded = bool(rets) and all(any(consumed_fact(c) for c in o.conds) for o in rets)
    refusing = any(o.kind == "raise" and any(consumed_fact(c) for c in o.conds) and isinstance(o.value, App) and "ValueError" in o.value.op for o in outs)
    R.check("C03-D5 whole item decoded", guarded and refusing, "deserialize_cbor", mod=de.module, node=de.node, function=ctx.fq(de),
            expected="the item is returned only when the decoder consumed len(cbstr) bytes; ValueError otherwise",
            found="bytes after the first CBOR item are ignored (cbor2.loads semantics): a byte string with a decodable prefix is parsed as the shorter item")


def dependency_classification(ctx):
    """An integrated member (text-string key of the envelope) is listed as a dependency exactly when its value decodes as an
    envelope: the description must name payloads as payloads and dependencies as dependencies."""
    R = ctx.report
    repo = ctx.repo
    R.rule("C03-D1d dependency / payload classification", 1, "an integrated value is a dependency iff it decodes as an envelope")
    f = repo.func(COMMON, "SuitKeyValue.from_cbor")
    fq = ctx.fq(f)
    ev = Evaluator(repo, inline_depth=0)
    outs = ev.outcomes(f)
    dep_keys = []
    calls = []
    for o in outs:
        for e in all_effects(o.effects):
            if isinstance(e, App) and e.op == "eff:store":
                k = e.args[1]
                if contains(k, lambda u: isinstance(u, Ref) and u.kind == "class" and u.obj.name == "suit_integrated_dependencies"):
                    dep_keys.append(k)
            if isinstance(e, App) and e.op == "eff:call" and isinstance(e.args[0], App):
                calls.append(e.args[0])
    if not dep_keys:
        raise AnalysisError(f"{fq}: selection of suit_integrated_dependencies not recognised")
    V = App("unpack", (App("elem", (App("meth:items", (App("call", (Ref("func", repo.func(COMMON, "SuitObject.deserialize_cbor")), P("cbstr"))),)),)), Const(1), Const(2)))
    trial = [c for c in calls if (c.op == "call" and isinstance(c.args[0], Ref) and getattr(c.args[0].obj, "name", "") == "from_cbor"
                                  or c.op == "meth:from_cbor") and c.args[-1] == V
             and any(isinstance(a_, Ref) and a_.kind == "class" and a_.obj.name.startswith("SuitEnvelopeTagged") for a_ in c.args)]
    ok = bool(trial)
    found = "" if trial else "no trial decode of the value as an envelope"
    for k in dep_keys:
        conds = {c_ for g_, t in cases(k) for c_ in g_}
        if not conds or not all(isinstance(c_, App) and c_.op == "exc" for c_ in conds):
            ok = False
            found = f"selected by {[repr(c_)[:120] for c_ in conds]}"
    R.check("C03-D1d dependency / payload classification", ok, "SuitKeyValue.from_cbor", mod=f.module, node=f.node, function=fq,
            expected="dependency iff SuitEnvelopeTagged*.from_cbor(value) succeeds (a payload that merely looks like an envelope stays a payload)",
            found=found)


# ---------------------------------------------------------------------------------------------- D2
def text_formats(ctx):
    R = ctx.report
    repo = ctx.repo
    ev = Evaluator(repo, inline_depth=0)
    io = repo.cls(IO, "InputOutputMixin")
    R.rule("C03-D2a dumps keep key order", 6, "every json/yaml dump of the parse output passes sort_keys=False")
    n = 0
    for f in io.methods.values():
        for node in walk_no_nested(f.node):
            if isinstance(node, ast.Call) and isinstance(node.func, ast.Attribute) and node.func.attr in ("dump", "dumps") \
                    and isinstance(node.func.value, ast.Name) and node.func.value.id in ("yaml", "json"):
                n += 1
                kw = {k.arg: k.value for k in node.keywords}
                sk = kw.get("sort_keys")
                lib = node.func.value.id
                ok = (isinstance(sk, ast.Constant) and sk.value is False) or (lib == "json" and sk is None)
                R.check("C03-D2a dumps keep key order", ok, f"{ctx.fq(f)}: {lib}.{node.func.attr}", mod=f.module, node=node, function=ctx.fq(f),
                        expected="sort_keys=False (PyYAML sorts mapping keys by default)", found=f"sort_keys={ast.unparse(sk) if sk is not None else 'default'}")
                # emitter options beyond the reviewed ones change how scalars are written; the reader is not their inverse for every
                # string (allow_unicode=True writes U+0085 raw, the scanner folds it into a blank; styles / custom dumpers likewise)
                extra_kw = sorted(k for k in kw if k not in ("sort_keys", "indent", "width", "stream", "end"))
                R.check("C03-D2a dumps keep key order", not extra_kw, f"{ctx.fq(f)}: {lib}.{node.func.attr} emitter options", mod=f.module, node=node,
                        function=ctx.fq(f), expected="library defaults (plus sort_keys=False): the reader restores every string the writer emits",
                        found=f"options {extra_kw}", key_extra="opts")
    # a dump function handed to a private helper of the class as an argument (dump=yaml.dump): the helper's call of that parameter
    # is the dump call, with the library of the function that was handed over
    for f in {id(x): x for x in io.methods.values()}.values():
        for node in walk_no_nested(f.node):
            if not (isinstance(node, ast.Call) and isinstance(node.func, ast.Attribute) and isinstance(node.func.value, ast.Name)
                    and node.func.value.id in ("cls", "self") and node.func.attr in io.methods):
                continue
            g = io.methods[node.func.attr]
            gp = [a_.arg for a_ in g.node.args.posonlyargs + g.node.args.args]
            gp = gp[1:] if gp and gp[0] in ("cls", "self") else gp
            handed = [(gp[i_], a_) for i_, a_ in enumerate(node.args) if i_ < len(gp)] + [(k_.arg, k_.value) for k_ in node.keywords if k_.arg]
            for pname, val in handed:
                if not (isinstance(val, ast.Attribute) and val.attr in ("dump", "dumps") and isinstance(val.value, ast.Name) and val.value.id in ("yaml", "json")):
                    continue
                lib = val.value.id
                for c2 in walk_no_nested(g.node):
                    if isinstance(c2, ast.Call) and isinstance(c2.func, ast.Name) and c2.func.id == pname:
                        n += 1
                        kw = {k.arg: k.value for k in c2.keywords}
                        sk = kw.get("sort_keys")
                        ok = (isinstance(sk, ast.Constant) and sk.value is False) or (lib == "json" and sk is None)
                        R.check("C03-D2a dumps keep key order", ok, f"{ctx.fq(f)}: {lib}.{val.attr} through {g.name}", mod=g.module, node=c2, function=ctx.fq(g),
                                expected="sort_keys=False (PyYAML sorts mapping keys by default)", found=f"sort_keys={ast.unparse(sk) if sk is not None else 'default'}",
                                key_extra=f.name)
                        extra_kw = sorted(k for k in kw if k not in ("sort_keys", "indent", "width", "stream", "end"))
                        R.check("C03-D2a dumps keep key order", not extra_kw, f"{ctx.fq(f)}: {lib}.{val.attr} through {g.name} emitter options", mod=g.module,
                                node=c2, function=ctx.fq(g), expected="library defaults (plus sort_keys=False): the reader restores every string the writer emits",
                                found=f"options {extra_kw}", key_extra="opts" + f.name)
    if n < 3:
        raise AnalysisError("fewer than three dump calls found in InputOutputMixin")
    R.rule("C03-D2b format tables", 4, "serializer/deserializer tables name existing methods; json, yaml and suit occur in both")
    ser = ctx.ev.const(io.attrs["SERIALIZERS"], io.module)
    des = ctx.ev.const(io.attrs["DESERIALIZERS"], io.module)
    R.check("C03-D2b format tables", all(v in io.methods for v in ser.values()), "SERIALIZERS", mod=io.module, node=io.attr_nodes["SERIALIZERS"],
            function=io.fq, expected="every value is a method", found=f"{[v for v in ser.values() if v not in io.methods]}")
    R.check("C03-D2b format tables", all(v in io.methods for v in des.values()), "DESERIALIZERS", mod=io.module, node=io.attr_nodes["DESERIALIZERS"],
            function=io.fq, expected="every value is a method", found=f"{[v for v in des.values() if v not in io.methods]}")
    R.check("C03-D2b format tables", {"json", "yaml", "suit"} <= set(ser) & set(des), "json / yaml / suit in both directions", mod=io.module,
            node=io.attr_nodes["SERIALIZERS"], function=io.fq, expected="symmetric formats", found=f"{sorted(set(ser) ^ set(des))}")
    want = {"json": ("to_json_file", "from_json_file"), "yaml": ("to_yaml_file", "from_yaml_file"), "suit": ("to_suit_file", "from_suit_file")}
    R.check("C03-D2b format tables", all((ser.get(k), des.get(k)) == v for k, v in want.items()), "each format maps to its own writer and reader",
            mod=io.module, node=io.attr_nodes["SERIALIZERS"], function=io.fq, expected=f"{want}", found=f"{ {k: (ser.get(k), des.get(k)) for k in want} }")
    P = lambda n: Sym("param:" + n)

    def calls_of(effects):
        return [e.args[0] for e in all_effects(effects) if isinstance(e, App) and e.op == "eff:call" and isinstance(e.args[0], App)]

    def is_func(t, name):
        return isinstance(t, App) and t.op == "call" and isinstance(t.args[0], Ref) and getattr(t.args[0].obj, "name", None) == name

    # ---- D2c: dispatch = getattr(self, TABLE[format.lower()]); AUTO -> suffix without the dot; no file -> stdout
    R.rule("C03-D2c format dispatch", 4, "dispatch looks the lower-cased format up in its own table")
    for q, table, par in (("InputOutputMixin.get_serializer", ser, "output_type"), ("InputOutputMixin.get_deserializer", des, "input_type")):
        g = repo.func(IO, q)
        rets = [o for o in ev.outcomes(g) if o.kind == "return"]
        want = App("call:getattr", (P("self"), App("idx", (Const(table), App("meth:lower", (P(par),))))))
        ok_form = bool(rets) and all(o.value == want for o in rets)
        if not ok_form and rets and isinstance(table, dict):
            # decided by evaluation: for every registered format name (any capitalisation) exactly the returning paths whose conditions
            # hold are taken and they return getattr(self, <table entry of the lower-cased name>); an unknown name takes none of them
            from sa.teval import teval as _teval, Unknown as _Unknown
            try:
                good = True
                for name in [k for k in table] + [k.upper() for k in table] + [k.capitalize() for k in table] + ["no-such-format", ""]:
                    env_ = {P(par): name, "param:" + par: name}
                    taken = [o for o in rets if all(bool(_teval(c_, env_)) for c_ in o.conds)]
                    if name.lower() in table:
                        vals = [o.value for o in taken]
                        good = good and len(taken) >= 1 and all(isinstance(v, App) and v.op == "call:getattr" and len(v.args) == 2 and v.args[0] == P("self")
                                                               and _teval(v.args[1], env_) == table[name.lower()] for v in vals)
                    else:
                        # refused: no returning path is taken, or a raising path is (a raise inside a followed helper pre-empts)
                        def _holds(o_):
                            try:
                                return all(bool(_teval(c_, env_)) for c_ in o_.conds)
                            except _Unknown:
                                return False
                        raised = [o_ for o_ in ev.outcomes(g) if o_.kind == "raise" and _holds(o_)]
                        good = good and (not taken or bool(raised))
                ok_form = good
            except _Unknown:
                ok_form = False
        R.check("C03-D2c format dispatch", ok_form, q.split(".")[-1], mod=g.module, node=g.node,
                function=ctx.fq(g), expected=f"getattr(self, <own table>[{par}.lower()])", found=f"{[repr(o.value)[:160] for o in rets]}")
    dp = repo.func("suit_generator.envelope", "SuitEnvelope.dump")
    douts = [o for o in ev.outcomes(dp) if o.kind == "return"]
    sel = [c for o in douts for c in calls_of(o.effects) if is_func(c, "get_serializer")]
    ok = False
    found = ""
    if sel:
        from sa.teval import teval as _teval, Unknown as _Unknown
        fmt = sel[0].args[-1]
        found = repr(fmt)[:300]
        # decision table over (format given, file given): the selected format is evaluated on the extracted term
        ok = True
        try:
            for ot, fn, want_ in (("AUTO", "out/env.yaml", "yaml"), ("AUTO", "e.JSON", "JSON"), ("AUTO", "x.suit", "suit"), ("json", "x.yaml", "json"),
                                  ("suit", "x.json", "suit"), ("AUTO", None, "STDOUT"), ("json", None, "STDOUT"), ("yaml", None, "STDOUT")):
                got = _teval(fmt, {"param:output_type": ot, "param:file_name": fn})
                if got != want_:
                    ok, found = False, f"output_type={ot!r}, file_name={fn!r} -> format {got!r} (expected {want_!r})"
                    break
        except _Unknown as e_:
            raise AnalysisError(f"{ctx.fq(dp)}: selected format not evaluable ({e_})")
    R.check("C03-D2c format dispatch", ok, "AUTO -> file suffix; no file -> stdout", mod=dp.module, node=dp.node, function=ctx.fq(dp),
            expected="suffix without the dot / 'STDOUT' / the format given", found=found or "serializer selection not recognised")
    # ... and on every normal path the serializer selected is called with (file, the envelope description, the hierarchy flag)
    used = True
    for o in douts:
        c_ = [c for c in calls_of(o.effects) if c.op == "call" and sel and c.args[0] == sel[0]]
        if not (len(c_) == 1 and list(c_[0].args[1:]) == [P("file_name"), App("attr:_envelope", (P("self"),)), P("parse_hierarchy")]):
            used = False
    R.check("C03-D2c format dispatch", used and bool(douts), "the selected serializer receives the file, the description and the hierarchy flag on every normal path",
            mod=dp.module, node=dp.node, function=ctx.fq(dp), expected="get_serializer(fmt)(file_name, self._envelope, parse_hierarchy)",
            found="the serializer is not called with these arguments on some normal path")

    # ---- D2d: hierarchy expansion
    R.rule("C03-D2d hierarchy expansion", 6, "a dependency is replaced only by the parse of that same value; only under suit-integrated-dependencies; anchors precede aliases")
    deps_name = "suit-integrated-dependencies"
    D = P("data")
    ROOT = Sym("ROOT")
    anchors_first = App("dict", (App("kv", (Const("SUIT_Dependent_Manifests"), Const({}))), App("kv", (App("spread", (D,)), D))))
    for q, yaml_mode in (("InputOutputMixin.parse_json_submanifests", False), ("InputOutputMixin.parse_yaml_submanifests", True)):
        f = repo.func(IO, q)
        fq = ctx.fq(f)
        outs = [o for o in ev.outcomes(f) if o.kind == "return"]
        outs = generic.sole_outcome(ctx, outs, f"{fq}: expected one outcome")
        o = outs[0]
        roots = {D, anchors_first} if yaml_mode else {D}

        def norm(t):
            if t in roots:
                return ROOT
            if isinstance(t, App) and t.op == "phi" and {x for _, x in cases(t)} <= roots:
                return ROOT
            if isinstance(t, App) and t.op in ("loopvar", "loopout", "maybe_assigned"):
                return norm(t.args[-1])  # a local name for a part of the description, used inside the loop
            if isinstance(t, App) and t.op == "mutated" and len(t.args) >= 2 and t.args[1] == Const("__setitem__"):
                return norm(t.args[0])  # the same container object after an entry was stored into it
            if isinstance(t, App):
                return App(t.op, [norm(a) for a in t.args], t.node)
            return t
        ret_alts = {x for _, x in cases(o.value)}
        R.check("C03-D2d hierarchy expansion", ret_alts <= roots and (not yaml_mode or anchors_first in ret_alts or True),
                f"{q}: the description itself is returned", mod=f.module, node=f.node, function=fq,
                expected="data (YAML: with the SUIT_Dependent_Manifests section inserted first when missing)", found=repr(o.value)[:200])
        ET = App("idx", (ROOT, Const("SUIT_Envelope_Tagged")))
        DEPS = App("idx", (ET, Const(deps_name)))
        K = App("elem", (DEPS,))
        SRC = App("idx", (DEPS, K))
        stores = [norm(e) for e in all_effects(o.effects) if isinstance(e, App) and e.op in ("eff:store", "eff:delitem", "eff:setattr")]
        parse_calls = [norm(c) for c in calls_of(o.effects) if c.op == "meth:to_obj"]
        PARSE = None
        for c in parse_calls:
            inner = c.args[0]
            if is_func(inner, "from_cbor") and any(isinstance(a_, Ref) and a_.kind == "class" and a_.obj.name == "SuitEnvelopeTagged" for a_ in inner.args) \
                    and inner.args[-1] == App("a2b_hex", (SRC,)):
                PARSE = c
        if yaml_mode:
            DM = App("idx", (ROOT, Const("SUIT_Dependent_Manifests")))
            AK = [App("cat", (App("str", (K,)), Const("_envelope"))), App("cat", (K, Const("_envelope")))]
            rec = [norm(c) for c in calls_of(o.effects) if is_func(c, f.name)]
            REC = next((c for c in rec if PARSE is not None and c.args[-1] == PARSE), None)
            allowed = []
            for ak in AK:
                allowed.append(App("eff:store", (DM, ak, REC)) if REC is not None else None)
                allowed.append(App("eff:store", (DEPS, K, App("idx", (DM, ak)))))
            need = 2
        else:
            allowed = [App("eff:store", (DEPS, K, PARSE))] if PARSE is not None else []
            need = 1
        extra = [e for e in stores if e not in allowed]
        hit = [e for e in stores if e in allowed]
        R.check("C03-D2d hierarchy expansion", PARSE is not None and len(set(map(repr, hit))) == need and not extra,
                f"{q}: replacement = SuitEnvelopeTagged.from_cbor(a2b_hex(<that same value>)).to_obj()" + (", stored once as anchor and referenced by the same object" if yaml_mode else ""),
                mod=f.module, node=f.node, function=fq, expected="only the stores that put the parse of the very value being replaced in its place",
                found=("parse of the replaced value not recognised" if PARSE is None else f"other stores: {[repr(e)[:140] for e in extra][:2]}" if extra
                       else f"{len(hit)} of {need} expected stores"))
        # nothing else modifies the description: no mutating call on anything reached from it
        muts = [norm(c) for c in calls_of(o.effects) if c.op.startswith("meth:") and c.op[5:] in
                ("update", "pop", "popitem", "clear", "setdefault", "append", "extend", "insert", "remove", "sort", "reverse", "__setitem__", "__delitem__")
                and contains(norm(c.args[0]), lambda u: u == ROOT)]
        R.check("C03-D2d hierarchy expansion", not muts, f"{q}: no other modification of the description", mod=f.module,
                node=muts[0].node if muts and getattr(muts[0], "node", None) is not None else f.node, function=fq,
                expected="entries of the description are neither moved, merged nor dropped",
                found=f"{[repr(m_)[:160] for m_ in muts][:2]}")
        top = [e for e in o.effects if isinstance(e, App) and e.op.startswith("eff:") and e.op not in ("eff:assume", "eff:log")]
        guard = len(top) == 1 and top[0].op == "eff:if" and norm(top[0].args[0]) == App("in", (Const(deps_name), ET)) and not list(top[0].args[2].args)
        R.check("C03-D2d hierarchy expansion", guard, f"{q}: only when the envelope has integrated dependencies", mod=f.module, node=f.node,
                function=fq, expected="everything guarded by the presence of suit-integrated-dependencies", found="unguarded effects" if not guard else "")
        if yaml_mode:
            R.check("C03-D2d hierarchy expansion", anchors_first in {x for _, x in cases(o.value)} | {x for e in all_effects(o.effects) for s_ in subterms(e) for x in ([s_] if s_ == anchors_first else [])},
                    "YAML: the anchor section is inserted before the envelope", mod=f.module, node=f.node, function=fq,
                    expected="{'SUIT_Dependent_Manifests': {}, **data} (anchors must precede aliases in the dump)",
                    found="anchor section appended after the envelope or missing")

    # ---- D2e: writers expand only on request; cmd_parse hands its options through; the reader returns the model's description
    R.rule("C03-D2e writers and CLI", 5, "writers expand only on request; parse loads 'suit' and dumps with the requested format")
    for q, fn, lib in (("InputOutputMixin.to_json_file", "parse_json_submanifests", "json.dump"), ("InputOutputMixin.to_yaml_file", "parse_yaml_submanifests", "yaml.dump"),
                       ("InputOutputMixin.to_stdout", "parse_yaml_submanifests", "yaml.dump")):
        f = repo.func(IO, q)
        o = [x for x in ev.outcomes(f) if x.kind == "return"]
        dumps = [c for x in o for c in calls_of(x.effects) if c.op == "call:" + lib]
        ok = False
        found = "dump call not recognised"
        if len(dumps) >= 1:
            obj = dumps[0].args[0]
            found = repr(obj)[:200]
            tab = cases(obj)
            exp = [t for g_, t in tab if is_func(t, fn) and t.args[-1] == P("data")]
            plain = [t for g_, t in tab if t == P("data")]
            conds = {c_ for g_, t in tab for c_ in g_}
            ok = len(tab) == 2 and len(exp) == 1 and len(plain) == 1 and conds <= {App("is", (P("parse_hierarchy"), Const(True))), P("parse_hierarchy"),
                                                                               App("==", (P("parse_hierarchy"), Const(True)))}
            for g_, t in tab:
                for c_, v_ in g_.items():
                    if is_func(t, fn) and v_ is not True:
                        ok = False
        R.check("C03-D2e writers and CLI", ok, q, mod=f.module, node=f.node, function=ctx.fq(f),
                expected=f"{fn}(data) if parse_hierarchy is True else data", found=found, key_extra=q)
    pm = repo.func("suit_generator.cmd_parse", "main")
    po = [x for x in ev.outcomes(pm) if x.kind == "return"]
    pc = [c for x in po for c in calls_of(x.effects)]
    lo = [c for c in pc if is_func(c, "load")]
    du = [c for c in pc if is_func(c, "dump")]
    ok = len(lo) == 1 and len(du) == 1 and list(lo[0].args[2:]) == [P("input_file"), Const("suit")] and lo[0].args[1] == du[0].args[1] \
        and list(du[0].args[2:]) == [P("output_file"), P("output_format"), P("parse_hierarchy")]
    R.check("C03-D2e writers and CLI", ok, "cmd_parse.main", mod=pm.module, node=pm.node, function=ctx.fq(pm),
            expected="load(input_file, 'suit'); dump(output_file, output_format, parse_hierarchy) on the same envelope object",
            found=f"{[repr(c)[:120] for c in lo + du]}")
    fs = repo.func(IO, "InputOutputMixin.from_suit_file")
    fo = [x for x in ev.outcomes(fs) if x.kind == "return"]
    want = None
    ok = False
    for x in fo:
        v = x.value
        ok = isinstance(v, App) and v.op == "meth:to_obj" and is_func(v.args[0], "from_cbor") and v.args[0].args[-1] == App("filebytes", (P("file_name"),)) \
            and any(isinstance(a_, Ref) and a_.kind == "class" and a_.obj.name == "SuitEnvelopeTagged" for a_ in v.args[0].args)
    R.check("C03-D2e writers and CLI", ok and len(fo) == 1, "from_suit_file returns the full model's description", mod=fs.module, node=fs.node,
            function=ctx.fq(fs), expected="SuitEnvelopeTagged.from_cbor(<whole file>).to_obj()", found=f"{[repr(x.value)[:160] for x in fo]}")


def strip_loop(t):
    if isinstance(t, App):
        if t.op in ("loopvar", "loopout", "maybe_assigned"):
            return strip_loop(t.args[-1])
        return App(t.op, [strip_loop(a) for a in t.args], t.node)
    return t


# ---------------------------------------------------------------------------------------------- D3
def union_order(ctx):
    """Union alternatives (and the size constraints that disambiguate byte strings) equal the reference shape."""
    R = ctx.report
    S = ctx.schema
    R.rule("C03-D3 union alternatives and order", 12, "per union: the ordered alternatives and leaf size constraints equal the reference")
    ref = ctx.reference("schema_shape.json")
    cur = S.shape_graph()
    RN, CN = ref["nodes"], cur["nodes"]
    seen = set()

    def sig(N, nid, depth=0):
        n = N[nid]
        t = n["t"]
        if t == "bstr.cbor":
            return "W(" + sig(N, n["of"], depth) + ")"
        if t == "union" and depth < 2:
            return "U(" + "|".join(sig(N, a, depth + 1) for a in n["alts"]) + ")"
        if "size" in n:
            return f"{t}[{n['size']}]"
        return t

    def go(rid, cid, path):
        if (rid, cid) in seen:
            return
        seen.add((rid, cid))
        r, c = RN[rid], CN[cid]
        if r["t"] != c["t"]:
            return  # reported by C02
        t = r["t"]
        if t == "union":
            rs, cs = [sig(RN, a) for a in r["alts"]], [sig(CN, a) for a in c["alts"]]
            R.check("C03-D3 union alternatives and order", cs[:len(rs)] == rs, path or "/", file="suit_generator/suit", line=0,
                    function=f"schema node {c.get('hint')}", construct=f"{path}|{rs}|{cs}", expected=f"alternatives in order {rs}",
                    found=f"{cs}: a byte string would be parsed as a different alternative")
            for a, b in zip(r["alts"], c["alts"]):
                go(a, b, path + "/alt")
        elif t == "bstr.cbor":
            go(r["of"], c["of"], path + "/W")
        elif t in ("kv", "pair"):
            for code, rv in r["keys"].items():
                if code in c["keys"]:
                    go(rv["v"], c["keys"][code]["v"], f"{path}/{code}")
        elif t == "umap":
            for x, y in zip(r["entries"], c["entries"]):
                go(x["k"], y["k"], path + "/k")
                go(x["v"], y["v"], path + "/v")
        elif t == "array":
            for x, y in zip(r["items"], c["items"]):
                go(x["v"], y["v"], f"{path}/[{x['name']}]")
        elif t in ("list", "tag", "bits") and r.get("of") and c.get("of"):
            go(r["of"], c["of"], path + "/*")

    go(ref["root"], cur["root"], "")
    # decode order of the generic union node: first alternative that does not raise ValueError
    R.rule("C03-D3b union decoding rule", 2, "alternatives are tried in metadata order; the first that does not raise ValueError wins, on both entry points")

    def first_match_loop(fi_, method):
        """for X in cls._metadata.children (plain, in order): try: <use of X.method(<the parameter>)>; break  except ValueError: go on"""
        params = [a_.arg for a_ in fi_.node.args.args]
        data = params[1] if len(params) > 1 else None
        for lp in [n for n in ast.walk(fi_.node) if isinstance(n, ast.For)]:
            it = lp.iter
            if not (isinstance(it, ast.Attribute) and it.attr == "children" and isinstance(it.value, ast.Attribute) and it.value.attr == "_metadata"
                    and isinstance(it.value.value, ast.Name) and it.value.value.id in ("cls", "self")):
                continue
            if not isinstance(lp.target, ast.Name):
                continue
            x = lp.target.id
            for tr in [n for n in lp.body if isinstance(n, ast.Try)]:
                calls = [c for st_ in tr.body for c in ast.walk(st_) if isinstance(c, ast.Call) and isinstance(c.func, ast.Attribute) and c.func.attr == method
                         and isinstance(c.func.value, ast.Name) and c.func.value.id == x and len(c.args) == 1 and isinstance(c.args[0], ast.Name) and c.args[0].id == data]
                brk = any(isinstance(st_, (ast.Break, ast.Return)) for st_ in tr.body + tr.orelse)
                if not brk:
                    # the other spelling: every handler goes on to the next alternative with `continue`, and the statement that follows the
                    # try in the loop body - reached only when no ValueError was raised - leaves the loop (break / return)
                    after = lp.body[lp.body.index(tr) + 1:]
                    brk = bool(after) and isinstance(after[0], (ast.Break, ast.Return)) and bool(tr.handlers) and all(
                        h.body and isinstance(h.body[-1], ast.Continue) for h in tr.handlers)
                hs = tr.handlers
                only_value_error = bool(hs) and all(h.type is not None and {ast.unparse(t_) for t_ in (h.type.elts if isinstance(h.type, ast.Tuple) else [h.type])} == {"ValueError"}
                                                    and not any(isinstance(z, (ast.Raise, ast.Return, ast.Break)) for z in ast.walk(h)) for h in hs)
                if calls and brk and only_value_error:
                    return True
        return False
    for q, meth in (("SuitUnion.from_cbor", "from_cbor"), ("SuitUnion.from_obj", "from_obj")):
        fu = ctx.repo.func(COMMON, q)
        R.check("C03-D3b union decoding rule", first_match_loop(fu, meth), q, mod=fu.module, node=fu.node, function=ctx.fq(fu),
                expected="for child in cls._metadata.children: try: child.%s(data); break  except ValueError: next alternative" % meth,
                found="first-match loop over the alternatives in metadata order not recognised")


# ---------------------------------------------------------------------------------------------- D4
PRED_KINDS = ("isinstance", "len", "isalpha", "isnumeric", "range")


def predicates(fnode, param):
    """Validation predicates applied to ``param`` that lead to a ValueError."""
    out = set()
    for n in ast.walk(fnode):
        if isinstance(n, ast.If):
            body_raises = any(isinstance(x, ast.Raise) for b in n.body for x in ast.walk(b))
            else_raises = any(isinstance(x, ast.Raise) for b in n.orelse for x in ast.walk(b))
            if not (body_raises or else_raises):
                continue
            for c in ast.walk(n.test):
                if isinstance(c, ast.Call) and isinstance(c.func, ast.Name) and c.func.id == "isinstance" and c.args \
                        and param in ast.unparse(c.args[0]):
                    out.add("type:" + ast.unparse(c.args[1]).replace("bytes", "text-or-bytes").replace("str", "text-or-bytes"))
                if isinstance(c, ast.Compare) and isinstance(c.left, ast.Call) and isinstance(c.left.func, ast.Name) and c.left.func.id == "len" \
                        and isinstance(c.comparators[0], ast.Constant):
                    out.add(f"len{ {ast.NotEq: '==', ast.Eq: '==', ast.Gt: '<=', ast.Lt: '>='}.get(type(c.ops[0]), '?')}{c.comparators[0].value}")
                if isinstance(c, ast.Call) and isinstance(c.func, ast.Attribute) and c.func.attr in ("isalpha", "isnumeric", "isdigit", "isalnum"):
                    out.add("chars:" + c.func.attr)
                if isinstance(c, ast.Compare) and any(isinstance(o, (ast.Lt, ast.Gt, ast.LtE, ast.GtE)) for o in c.ops) \
                        and not (isinstance(c.left, ast.Call) and ast.unparse(c.left.func) == "len"):
                    out.add("range:" + ast.unparse(c).replace(param, "x"))
    return out


def validator_symmetry(ctx):
    R = ctx.report
    repo = ctx.repo
    S = ctx.schema
    R.rule("C03-D4 validator symmetry", 2, "per leaf type: what parse requires of a value, create requires too (else create emits what parse rejects or re-types)")
    base = repo.cls(COMMON, "SuitObject")
    for ci in sorted(S.reachable(), key=lambda c: c.fq):
        if S.kind(ci) not in ("bstr", "emptybstr", "tstr", "int", "uint", "bool", "null"):
            continue
        fc = ci.methods.get("from_cbor")
        if fc is None:
            continue
        names = fc.params()
        if len(names) < 2:
            continue
        cbor_preds = {p for p in predicates(fc.node, names[1]) if not p.startswith("type:")}
        if not cbor_preds:
            continue
        # a node whose encoder ignores its value (constant to_cbor) cannot emit what its decoder rejects
        tc = repo.lookup_method(ci, "to_cbor")
        if tc is not None and tc.cls is ci:
            touts = [o for o in Evaluator(repo, inline_depth=0).outcomes(tc) if o.kind == "return"]
            if touts and all(isinstance(o.value, Const) for o in touts):
                R.ok("C03-D4 validator symmetry", f"{ci.name}: encoder emits a constant")
                continue
        obj_side = set()
        init = repo.lookup_method(ci, "__init__")
        if init is not None and init.cls is not base:
            obj_side |= {p for p in predicates(init.node, init.params()[1] if len(init.params()) > 1 else "value") if not p.startswith("type:")}
        fo = ci.methods.get("from_obj")
        if fo is not None:
            obj_side |= {p for p in predicates(fo.node, fo.params()[1] if len(fo.params()) > 1 else "obj") if not p.startswith("type:")}
        missing = sorted(cbor_preds - obj_side)
        R.check("C03-D4 validator symmetry", not missing, f"{ci.name}: parse requires {sorted(cbor_preds)}", mod=ci.module, node=fc.node,
                function=ctx.fq(fc), construct=f"{ci.name}|{sorted(cbor_preds)}|{sorted(obj_side)}",
                expected=f"the description side ({'from_obj / ' if fo else ''}__init__) applies the same checks",
                found=f"{missing} checked only when parsing: create accepts a value that parse then rejects or reads as another alternative")
