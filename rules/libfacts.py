"""Library facts (DESIGN 3.8): each fact the rules rely on is re-derived from the *installed files* (source, stubs,
dist metadata) with ast / text — the libraries are never imported.  Used by the thorough tier of the properties that
consume the fact; a disagreement is an ANALYSIS-ERROR (exit 2), never a verdict."""
from __future__ import annotations

import ast
import glob
import re
import sys
from pathlib import Path

from sa.index import AnalysisError

FACTS = {}


def _site():
    for base in sys.path:
        if base.endswith("site-packages") and Path(base).is_dir():
            yield Path(base)


def _find(rel):
    for b in _site():
        p = b / rel
        if p.is_file():
            return p
    raise AnalysisError(f"library file {rel} not found")


def _func(path, qual):
    tree = ast.parse(path.read_text())
    parts = qual.split(".")
    body = tree.body
    node = None
    for part in parts:
        node = next((n for n in body if isinstance(n, (ast.FunctionDef, ast.ClassDef)) and n.name == part), None)
        if node is None:
            raise AnalysisError(f"{path.name}: {qual} not found")
        body = node.body
    return node


def fact(name, users):
    def deco(fn):
        FACTS[name] = (fn, users)
        return fn
    return deco


@fact("intelhex.merge default overlap is 'error'", ["C12", "C07"])
def f_merge():
    n = _func(_find("intelhex/__init__.py"), "IntelHex.merge")
    d = dict(zip([a.arg for a in n.args.args][-len(n.args.defaults):], n.args.defaults))
    return isinstance(d.get("overlap"), ast.Constant) and d["overlap"].value == "error"


@fact("intelhex.tobinstr(start, end) has an inclusive end", ["C12"])
def f_tobinstr():
    n = _func(_find("intelhex/__init__.py"), "IntelHex._get_start_end")
    src = ast.unparse(n)
    return "end = start + size - 1" in src  # size bytes <=> end = start + size - 1: end is inclusive


@fact("intelhex.bin2hex(fin, fout, offset) loads the whole file at offset", ["C16"])
def f_bin2hex():
    n = _func(_find("intelhex/__init__.py"), "bin2hex")
    src = ast.unparse(n)
    return [a.arg for a in n.args.args] == ["fin", "fout", "offset"] and "loadbin(fin, offset)" in src


@fact("cbor2 >= 6 decodes tag content as immutable frozendict / tuple; decoder max_depth default exists", ["C04", "C09", "C11", "C17"])
def f_cbor2():
    meta = None
    for b in _site():
        for p in glob.glob(str(b / "cbor2-*.dist-info/METADATA")):
            meta = Path(p).read_text()
    if meta is None:
        raise AnalysisError("cbor2 dist-info not found")
    major = int(re.search(r"^Version: (\d+)\.", meta, re.M).group(1))
    stub = _find("cbor2/__init__.pyi").read_text()
    if major >= 6:
        cls = re.search(r"class frozendict\(.*Mapping\[", stub)
        body = stub[stub.index("class frozendict"):][:1500]
        return bool(cls) and "__setitem__" not in body and "def pop" not in body and "max_depth: int" in stub
    return True


@fact("cryptography ec.generate_private_key takes an EllipticCurve instance", ["C15"])
def f_ec():
    stub = _find("cryptography/hazmat/bindings/_rust/openssl/ec.pyi").read_text()
    m = re.search(r"def generate_private_key\(\s*curve: ([\w.]+)", stub)
    return bool(m) and m.group(1).endswith("EllipticCurve")


@fact("yaml.dump sorts keys unless sort_keys=False", ["C03"])
def f_yaml():
    n = _func(_find("yaml/__init__.py"), "dump_all")
    d = dict(zip([a.arg for a in n.args.args][-len(n.args.defaults):], n.args.defaults))
    return isinstance(d.get("sort_keys"), ast.Constant) and d["sort_keys"].value is True


@fact("AESGCM.encrypt(nonce, data, associated_data) parameter order", ["C06", "C14"])
def f_aesgcm():
    stub = None
    for rel in ("cryptography/hazmat/bindings/_rust/openssl/aead.pyi", "cryptography/hazmat/primitives/ciphers/aead.py"):
        try:
            stub = _find(rel).read_text()
            m = re.search(r"class AESGCM.*?def encrypt\(\s*self,\s*nonce[^,]*,\s*data[^,]*,\s*associated_data", stub, re.S)
            if m:
                return True
        except AnalysisError:
            continue
    return False


def check(ctx, prop):
    """Re-derive the facts used by ``prop``; returns list of (fact, ok)."""
    out = []
    for name, (fn, users) in FACTS.items():
        if prop in users:
            try:
                ok = bool(fn())
            except AnalysisError:
                raise
            except Exception as e:  # pragma: no cover
                raise AnalysisError(f"library fact '{name}' could not be derived: {e}")
            out.append((name, ok))
    return out
