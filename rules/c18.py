"""C18 — output depends only on the inputs (effect freedom of the deterministic commands)."""
from __future__ import annotations

import ast

from sa.absint import Evaluator, all_effects
from sa.callgraph import CallGraph
from sa.index import AnalysisError, walk_no_nested
from rules.setuse import identity_observable, order_observable, parents_of
from sa.terms import App, Const, Ref, Sym, subterms

EXPLANATION = ("effect analysis over the call graph of the deterministic commands (create, parse, image, mpi, cache_create, "
               "payload_extract): no clock, RNG, uuid1/uuid4, id(), hash(), environment, cwd, unsorted directory listing or set "
               "iteration is reachable; no function body writes a module global, a class attribute or a class-level container "
               "after import (type metadata is written only by the module-level patches); signer/encryptor attributes are "
               "assigned in the same activation before they are read; both text loaders hand their result unmodified to "
               "the same pipeline; no repository code executed")

DET_ENTRIES = [
    ("suit_generator.cmd_create", "main"), ("suit_generator.cmd_parse", "main"), ("suit_generator.cmd_image", "main"),
    ("suit_generator.cmd_mpi", "main"), ("suit_generator.cmd_cache_create", "main"), ("suit_generator.cmd_payload_extract", "main"),
    ("suit_generator.cmd_convert", "main"),
]
FORBIDDEN_EXT = {
    "time.": "clock", "datetime.": "clock", "random.": "RNG", "secrets.": "RNG", "os.urandom": "RNG", "uuid.uuid1": "uuid1", "uuid.uuid4": "uuid4",
    "os.environ": "environment", "os.getenv": "environment", "os.getcwd": "working directory", "os.chdir": "working directory",
    "os.listdir": "directory listing", "os.scandir": "directory listing", "glob.": "directory listing", "os.getpid": "process id",
    "pathlib.Path.cwd": "working directory", "pathlib.Path.home": "environment", "socket.": "network", "platform.": "host",
    "tempfile.": "temporary names", "os.times": "clock", "getpass.": "environment",
}
FORBIDDEN_BUILTINS = {"id": "object identity", "hash": "string hash seed", "set": "set construction", "frozenset": "set construction",
                      "vars": None, "globals": "module globals", "input": "stdin"}
PATH_METHODS = {"iterdir": "directory listing", "glob": "directory listing", "rglob": "directory listing"}
MUTATORS = {"append", "extend", "update", "insert", "remove", "pop", "clear", "sort", "reverse", "add", "discard", "setdefault", "popitem"}
MEMO = {"cache", "lru_cache", "cached_property", "memoize", "memoized"}
PACKAGES = ("suit_generator", "ncs", "build_configuration")
IMMUTABLE_CTORS = {"tuple", "frozenset", "str", "int", "bytes", "float", "bool", "complex", "pathlib.Path", "pathlib.PurePath", "range",
                   "os.path.join", "os.path.abspath", "os.path.dirname", "uuid.UUID", "re.compile", "object"}
STATELESS_FACTORIES = {"logging.getLogger", "re.compile", "pathlib.Path", "pathlib.PurePath", "frozenset", "tuple", "collections.namedtuple",
                       "typing.TypeVar", "typing.NewType", "object", "str", "int", "bytes", "uuid.UUID", "struct.Struct"}
READONLY_METHODS = {"get", "items", "keys", "values", "copy", "index", "count", "startswith", "endswith", "hex", "decode", "encode", "join",
                    "lower", "upper", "strip", "split", "format", "is_file", "exists", "read_text", "read_bytes", "tobinstr", "minaddr", "maxaddr"}


def forbidden_in(ctx, f):
    """[(node, what)] for forbidden nondeterministic sources used directly in function f."""
    repo = ctx.repo
    out = []
    par = parents_of(f.node)
    for n in walk_no_nested(f.node):
        if isinstance(n, ast.Call):
            fn = n.func
            r = repo.resolve_expr(f.module, fn)
            if r and r[0] in ("ext", "builtin"):
                name = r[1]
                for pre, what in FORBIDDEN_EXT.items():
                    if name == pre.rstrip(".") or name.startswith(pre if pre.endswith(".") else pre + "."):
                        out.append((n, f"{what}: {name}"))
                if r[0] == "builtin" and name in FORBIDDEN_BUILTINS and FORBIDDEN_BUILTINS[name] and isinstance(fn, ast.Name):
                    if name in ("set", "frozenset"):
                        why = order_observable(f.node, n, par)
                        if why:
                            out.append((n, f"set construction: {name}() ({why})"))
                    elif name == "id":
                        why = identity_observable(f.node, n, par)
                        if why:
                            out.append((n, f"object identity: id() ({why})"))
                    else:
                        out.append((n, f"{FORBIDDEN_BUILTINS[name]}: {name}()"))
            if isinstance(fn, ast.Attribute) and fn.attr in PATH_METHODS:
                out.append((n, f"{PATH_METHODS[fn.attr]}: .{fn.attr}()"))
        elif isinstance(n, (ast.Set, ast.SetComp)):
            why = order_observable(f.node, n, par)
            if why:
                out.append((n, f"set construction, iteration order depends on the string hash seed ({why})"))
        elif isinstance(n, ast.Attribute):
            r = repo.resolve_expr(f.module, n)
            if r and r[0] == "ext" and r[1] in ("os.environ", "sys.argv"):
                out.append((n, f"environment: {r[1]}"))
    return out


def run(ctx):
    R = ctx.report
    repo = ctx.repo
    ctx.use_files(*[m.relpath for m in repo.modules.values()])
    cg = CallGraph(repo)
    R.analysed.update({"callgraph_" + k: v for k, v in cg.stats().items()})
    st = cg.stats()
    if st["unresolved"] > 0.05 * st["call_sites"]:
        raise AnalysisError(f"too many unresolved call sites: {st}")
    entries = [repo.func(m, q) for m, q in DET_ENTRIES]
    # serializer / deserializer methods are reached through getattr(self, TABLE[...])
    io = repo.cls("suit_generator.input_output", "InputOutputMixin")
    for tbl in ("SERIALIZERS", "DESERIALIZERS"):
        for name in ctx.ev.const(io.attrs[tbl], io.module).values():
            if name in io.methods:
                entries.append(io.methods[name])
            else:
                raise AnalysisError(f"{tbl} names a missing method {name}")
    reach = cg.reachable(entries)
    R.analysed["deterministic_path_functions"] = len(reach)
    R.rule("C18-D1 no nondeterministic source on the deterministic commands", 120, "per reachable function: no clock/RNG/uuid4/id/hash/env/cwd/listing/set")
    for fq, (f, pred) in sorted(reach.items()):
        if f.module.name == "suit_generator.logger":
            continue  # diagnostic only, checked below
        bad = forbidden_in(ctx, f)
        # uuid4 in the plugin importers is allow-listed (value flows only into a sys.modules key) but they are not on these paths
        if bad:
            for n, what in bad:
                R.fail("C18-D1 no nondeterministic source on the deterministic commands", f"{fq}: {what}", mod=f.module, node=n, function=fq,
                       expected="output is a function of the inputs only", found=what, witness=cg.path_to(reach, fq), key_extra=what)
        else:
            R.ok("C18-D1 no nondeterministic source on the deterministic commands", fq)
    memo = [(f, d) for f, _ in reach.values() for d in f.decorators if d in MEMO]
    R.rule("C18-D1b no memoisation", 1, "no cache decorator on any function of the deterministic commands")
    R.check("C18-D1b no memoisation", not memo, f"{len(reach)} functions", mod=memo[0][0].module if memo else None,
            node=memo[0][0].node if memo else None, function=ctx.fq(memo[0][0]) if memo else "deterministic commands",
            file="suit_generator", line=0, expected="no functools.cache / lru_cache", found=f"{[(ctx.fq(f), d) for f, d in memo]}")

    logger_rule(ctx)
    sign_encrypt_sources(ctx, cg)
    shared_state(ctx)
    per_call_state(ctx)
    loaders(ctx)


def logger_rule(ctx):
    """log_call's stack inspection is diagnostic only: values derived from inspect.* flow only into logger calls, and the wrapper
    returns exactly the wrapped function's result for the arguments it was given."""
    R = ctx.report
    repo = ctx.repo
    R.rule("C18-D1c logging is diagnostic only", 1, "values read from the call stack are used only as logging arguments; the wrapped result is returned unchanged")
    f = repo.func("suit_generator.logger", "log_call")
    inner = [n for n in ast.walk(f.node) if isinstance(n, ast.FunctionDef) and n is not f.node]
    if len(inner) != 1:
        raise AnalysisError("log_call: wrapper not recognised")
    w = inner[0]
    fparam = f.node.args.args[0].arg if f.node.args.args else None
    va, kw = (w.args.vararg.arg if w.args.vararg else None), (w.args.kwarg.arg if w.args.kwarg else None)
    if not (fparam and va and kw):
        raise AnalysisError("log_call: wrapper signature is not (*args, **kwargs)")

    def from_stack(expr):
        for x in ast.walk(expr):
            if isinstance(x, (ast.Attribute, ast.Name)):
                r = repo.resolve_expr(f.module, x)
                if r and r[0] == "ext" and (r[1].startswith("inspect.") or r[1].startswith("sys._getframe") or r[1].startswith("traceback.")):
                    return True
        return False
    tainted = set()
    changed = True
    while changed:
        changed = False
        for n in ast.walk(w):
            if isinstance(n, (ast.Assign, ast.AnnAssign)) and n.value is not None:
                if from_stack(n.value) or any(isinstance(x, ast.Name) and x.id in tainted for x in ast.walk(n.value)):
                    tg = n.targets if isinstance(n, ast.Assign) else [n.target]
                    for t in tg:
                        for x in ast.walk(t):
                            if isinstance(x, ast.Name) and x.id not in tainted:
                                tainted.add(x.id)
                                changed = True
    par = parents_of(w)

    def inside_log_or_assign(n):
        p_ = par.get(n)
        while p_ is not None and p_ is not w:
            if isinstance(p_, ast.Call) and isinstance(p_.func, ast.Attribute) and p_.func.attr in ("debug", "info", "warning", "error", "exception", "log"):
                return True
            if isinstance(p_, (ast.Assign, ast.AnnAssign)):
                return True
            p_ = par.get(p_)
        return False
    leaks = [n for n in ast.walk(w) if ((isinstance(n, ast.Name) and n.id in tainted and isinstance(n.ctx, ast.Load)) or (
        isinstance(n, ast.Call) and from_stack(n.func))) and not inside_log_or_assign(n)]

    def is_wrapped_call(e):
        return isinstance(e, ast.Call) and isinstance(e.func, ast.Name) and e.func.id == fparam and len(e.args) == 1 and isinstance(e.args[0], ast.Starred) \
            and isinstance(e.args[0].value, ast.Name) and e.args[0].value.id == va and len(e.keywords) == 1 and e.keywords[0].arg is None \
            and isinstance(e.keywords[0].value, ast.Name) and e.keywords[0].value.id == kw
    rets = [n for n in ast.walk(w) if isinstance(n, ast.Return)]
    ret_ok = bool(rets)
    for r_ in rets:
        v = r_.value
        if isinstance(v, ast.Name) and v.id not in tainted:
            asg = [n for n in ast.walk(w) if isinstance(n, ast.Assign) and any(isinstance(t, ast.Name) and t.id == v.id for t in n.targets)]
            ret_ok = ret_ok and len(asg) == 1 and is_wrapped_call(asg[0].value)
        else:
            ret_ok = ret_ok and is_wrapped_call(v)
    rebinds = [n for n in ast.walk(w) if isinstance(n, ast.Name) and isinstance(n.ctx, ast.Store) and n.id in (fparam, va, kw)]
    R.check("C18-D1c logging is diagnostic only", not leaks and ret_ok and not rebinds and bool(tainted), "log_call", mod=f.module, node=f.node,
            function=ctx.fq(f), expected="return func(*args, **kwargs); frame info only in logger calls",
            found=f"stack-derived values escape at line {leaks[0].lineno}" if leaks else ("arguments rebound" if rebinds else
                                                                                           "the wrapped result is not returned unchanged" if not ret_ok else "no stack use found"))


def sign_encrypt_sources(ctx, cg):
    R = ctx.report
    repo = ctx.repo
    R.rule("C18-D1d sign/encrypt: only the allowed sources", 40, "on sign and encrypt the only nondeterministic sources are the KMS signature, the one os.urandom(12) and the module-name uuid4")
    entries = [repo.func("suit_generator.cmd_sign", "main"), repo.func("suit_generator.cmd_encrypt", "main")]
    reach = cg.reachable(entries)
    allowed = {
        ("suit_generator.cmd_sign:_import_signer", "uuid4"), ("suit_generator.cmd_encrypt:_import_encryptor", "uuid4"),
        ("ncs.basic_kms:SuitKMS.encrypt", "RNG: os.urandom"),
        ("suit_generator.cmd_sign:RecursiveSigner.__init__", "environment: os.environ"),  # script location fallback, not output content
    }
    from sa.absint import _known_functions
    known = _known_functions()
    # a function of the table that moved (another module, imported back; or re-found under another name) keeps its entry
    for a_, b_ in list(allowed):
        try:
            now_ = repo.func(*a_.split(":", 1)).fq
        except AnalysisError:
            continue
        if now_ != a_:
            allowed.add((now_, b_))

    def permitted(fq, what, depth=0):
        if any(fq == a and (what.startswith(b) or b in what) for a, b in allowed):
            return True
        # a helper the table has never seen, called only from functions in which this very source is permitted: the statements moved,
        # the flow did not (the permission is for what the caller does with the value, and the caller is still the only user)
        if known is None or fq in known or depth >= 3:
            return False
        callers = [c for c, (cf, _) in reach.items() if any(t.fq == fq for t in cg.callees(cf))]
        return bool(callers) and all(permitted(c, what, depth + 1) for c in callers)
    for fq, (f, pred) in sorted(reach.items()):
        if f.module.name == "suit_generator.logger":
            continue
        bad = [(n, w) for n, w in forbidden_in(ctx, f) if not permitted(fq, w)]
        if bad:
            for n, what in bad:
                R.fail("C18-D1d sign/encrypt: only the allowed sources", f"{fq}: {what}", mod=f.module, node=n, function=fq,
                       expected="only the signature value and the IV/ciphertext may differ between runs", found=what,
                       witness=cg.path_to(reach, fq), key_extra=what)
        else:
            R.ok("C18-D1d sign/encrypt: only the allowed sources", fq)
    # the uuid4 value flows only into the module name / sys.modules key
    R.rule("C18-D1e uuid4 only names the plugin module", 2, "uuid4().hex is used only to build the sys.modules key")
    for m, q in (("suit_generator.cmd_sign", "_import_signer"), ("suit_generator.cmd_encrypt", "_import_encryptor")):
        f = repo.func(m, q)
        seeds = {x.id for n in ast.walk(f.node) if isinstance(n, ast.Assign) and any(
            isinstance(c, ast.Call) and isinstance(c.func, (ast.Attribute, ast.Name)) and ast.unparse(c.func).split(".")[-1] == "uuid4" for c in ast.walk(n.value))
            for t in n.targets for x in ast.walk(t) if isinstance(x, ast.Name)}
        direct = [c for n in ast.walk(f.node) if not isinstance(n, ast.Assign) for c in ast.iter_child_nodes(n)
                  if isinstance(c, ast.Call) and ast.unparse(c.func).split(".")[-1] == "uuid4" and not any(
                      isinstance(a_, ast.Assign) and any(x is c for x in ast.walk(a_.value)) for a_ in ast.walk(f.node))]
        bad = _name_only_uses(repo, f, seeds, 0)
        n_uses = len([n for n in ast.walk(f.node) if isinstance(n, ast.Name) and n.id in seeds and isinstance(n.ctx, ast.Load)])
        R.check("C18-D1e uuid4 only names the plugin module", not bad and not direct and len(seeds) >= 1 and n_uses >= 1, ctx.fq(f), mod=f.module,
                node=(bad[0][0] if bad else f.node), function=ctx.fq(f),
                expected="the random suffix only builds the module name, which is used as the name of the import spec and as the sys.modules key",
                found=(bad[0][1] if bad else ("uuid4() used outside an assignment of the module name" if direct else f"{len(seeds)} names, {n_uses} uses")))


def _name_only_uses(repo, f, tainted, depth):
    """[(node, what)] uses of the tainted names (values derived from uuid4) in f that are anything else than: building another string
    (which becomes tainted), the name argument of importlib's spec_from_file_location, a key of sys.modules, an argument of a logging
    call, or the argument of a module function whose parameter is itself used only in these ways."""
    tainted = set(tainted)
    changed = True
    while changed:
        changed = False
        for n in ast.walk(f.node):
            if isinstance(n, ast.Assign) and isinstance(n.value, (ast.BinOp, ast.JoinedStr, ast.Name)) and any(
                    isinstance(x, ast.Name) and x.id in tainted for x in ast.walk(n.value)):
                for t in n.targets:
                    if isinstance(t, ast.Name) and t.id not in tainted:
                        tainted.add(t.id)
                        changed = True
    par = parents_of(f.node)
    bad = []
    for u in ast.walk(f.node):
        if not (isinstance(u, ast.Name) and u.id in tainted and isinstance(u.ctx, ast.Load)):
            continue
        p_ = par.get(u)
        # inside a string construction that is assigned to a (tainted) name
        q_ = p_
        while isinstance(q_, (ast.BinOp, ast.JoinedStr, ast.FormattedValue)):
            q_ = par.get(q_)
        if isinstance(q_, ast.Assign) and all(isinstance(t, ast.Name) and t.id in tainted for t in q_.targets):
            continue
        if isinstance(p_, ast.Assign) and p_.value is u and all(isinstance(t, ast.Name) and t.id in tainted for t in p_.targets):
            continue
        if isinstance(p_, ast.Subscript) and p_.slice is u and ast.unparse(p_.value) == "sys.modules":
            continue
        if isinstance(p_, ast.Call) and any(x is u for x in p_.args):
            fn = ast.unparse(p_.func)
            if fn.split(".")[-1] == "spec_from_file_location" and p_.args[0] is u:
                continue
            if fn.split(".")[-1] in ("debug", "info", "warning", "error", "exception", "log"):
                continue
            r = repo.resolve_expr(f.module, p_.func) if isinstance(p_.func, (ast.Name, ast.Attribute)) else None
            if r and r[0] == "func" and depth < 3:
                callee = r[1]
                idx = [i for i, x in enumerate(p_.args) if x is u][0]
                params = callee.params()
                if idx < len(params):
                    sub = _name_only_uses(repo, callee, {params[idx]}, depth + 1)
                    if not sub:
                        continue
                    bad.extend(sub)
                    continue
        bad.append((u, f"{u.id} (derived from uuid4) is used in {ast.unparse(p_)[:80]}"))
    return bad


def shared_state(ctx):
    R = ctx.report
    repo = ctx.repo
    S = ctx.schema
    R.rule("C18-D2 no shared state written after import", 240, "per function: no store to a module global, class attribute or class-level container")
    allow = {
        "suit_generator.suit.types.common:cbstr.<locals>.Cbstr.__init__": "functools.update_wrapper(Cbstr, cls, updated=[]) copies constant attributes of cls (idempotent)",
        "suit_generator.cli:configure_cli_logging": "logging configuration (logger.disabled) - diagnostic only, never output-affecting",
    }
    count = 0
    for f in sorted(repo.all_functions(), key=lambda f: f.fq):
        count += 1
        fq = ctx.fq(f)
        bad = []
        cls_containers = set()
        inst_attrs = set()
        if f.cls is not None:
            try:
                fam = repo.mro(f.cls)
            except AnalysisError:
                fam = [f.cls]
            for c in fam:
                for name, expr in c.attrs.items():
                    if isinstance(expr, (ast.List, ast.Dict, ast.Set, ast.ListComp, ast.DictComp)) or (
                            isinstance(expr, ast.Call) and ast.unparse(expr.func) in ("dict", "list", "set", "Metadata")):
                        cls_containers.add(name)
                for m in c.methods.values():
                    for n in ast.walk(m.node):
                        if isinstance(n, ast.Attribute) and isinstance(n.ctx, ast.Store) and isinstance(n.value, ast.Name) and n.value.id == "self":
                            inst_attrs.add(n.attr)
        for n in walk_no_nested(f.node):
            if isinstance(n, ast.Global):
                bad.append((n, f"global {', '.join(n.names)}"))
            targets = []
            if isinstance(n, ast.Assign):
                targets = n.targets
            elif isinstance(n, (ast.AugAssign, ast.AnnAssign)):
                targets = [n.target]
            elif isinstance(n, ast.Delete):
                targets = n.targets
            for t in targets:
                base = t
                path = []
                while isinstance(base, (ast.Subscript, ast.Attribute)):
                    path.append(base)
                    base = base.value
                if not path:
                    continue
                outer = path[-1]  # the attribute/subscript directly on the base name
                if isinstance(base, ast.Name):
                    r = repo.resolve_name(f.module, base.id) if base.id not in ("self", "cls") else None
                    # Cls.attr = …  /  Cls.attr[k] = … / module_var[k] = …
                    if r and r[0] == "class":
                        bad.append((n, f"store into class {base.id}: {ast.unparse(t)[:60]}"))
                    elif r and r[0] == "const" and base.id not in {a.arg for a in f.node.args.args} and not _is_local(f, base.id):
                        bad.append((n, f"store into module-level object {base.id}: {ast.unparse(t)[:60]}"))
                    elif r and r[0] == "ext" and r[1] == "sys" and isinstance(outer, ast.Attribute) and outer.attr == "modules":
                        # the plugin import idiom: the module object created from the import spec is registered under its name
                        mods = {t_.id for a_ in ast.walk(f.node) if isinstance(a_, ast.Assign) and isinstance(a_.value, ast.Call)
                                and ast.unparse(a_.value.func).split(".")[-1] == "module_from_spec" for t_ in a_.targets if isinstance(t_, ast.Name)}
                        if not (isinstance(n, ast.Assign) and isinstance(n.value, ast.Name) and n.value.id in mods):
                            bad.append((n, "sys.modules written outside the plugin import idiom (sys.modules[name] = module_from_spec(spec))"))
                    elif r and r[0] == "ext" and not _is_local(f, base.id) and base.id not in {a.arg for a in f.node.args.args}:
                        # yaml.Dumper.ignore_aliases = ... / json.encoder.X = ...: configuration of a library object lives for the whole process
                        bad.append((n, f"store into an object of an imported library ({r[1]}): {ast.unparse(t)[:60]} - changes every later use in the process"))
                    elif base.id == "cls" and f.kind == "classmethod":
                        bad.append((n, f"store into the class object: {ast.unparse(t)[:60]}"))
                    elif base.id == "self" and isinstance(outer, ast.Attribute):
                        a = outer.attr
                        if len(path) > 1 and a in cls_containers and a not in inst_attrs:
                            bad.append((n, f"store into class-level container self.{a}"))
                        if a == "__class__":
                            bad.append((n, "store through self.__class__"))
                    if any(isinstance(p, ast.Attribute) and p.attr == "_metadata" for p in path):
                        bad.append((n, f"type metadata written inside a function: {ast.unparse(t)[:60]}"))
            if isinstance(n, ast.Call) and isinstance(n.func, ast.Attribute) and n.func.attr in MUTATORS:
                recv = n.func.value
                base = recv
                path = []
                while isinstance(base, (ast.Subscript, ast.Attribute)):
                    path.append(base)
                    base = base.value
                if isinstance(base, ast.Name):
                    r = repo.resolve_name(f.module, base.id) if base.id not in ("self", "cls") else None
                    if r and r[0] == "class" and path:
                        bad.append((n, f"mutating call on a class-level object: {ast.unparse(n)[:60]}"))
                    elif r and r[0] == "const" and not _is_local(f, base.id) and base.id not in {a.arg for a in f.node.args.args}:
                        bad.append((n, f"mutating call on a module-level object: {ast.unparse(n)[:60]}"))
                    elif base.id in ("self", "cls") and path:
                        a = path[-1].attr if isinstance(path[-1], ast.Attribute) else None
                        if a in cls_containers and a not in inst_attrs:
                            bad.append((n, f"mutating call on class-level container {base.id}.{a}"))
                        if any(isinstance(p, ast.Attribute) and p.attr == "_metadata" for p in path):
                            bad.append((n, f"type metadata mutated inside a function: {ast.unparse(n)[:60]}"))
            if isinstance(n, ast.Call) and ast.unparse(n.func) in ("setattr",) and n.args:
                a0 = n.args[0]
                if isinstance(a0, ast.Name) and a0.id != "self":
                    r = repo.resolve_name(f.module, a0.id)
                    if (r and r[0] == "class") or a0.id == "cls":
                        bad.append((n, f"setattr on a class: {ast.unparse(n)[:60]}"))
        # objects constructed at import (parser = ConfigParser(), cache = SomeClass()): one instance for the whole process; a method call
        # on it from a function may carry state from one call to the next (loggers, compiled patterns and paths are stateless)
        for n in walk_no_nested(f.node):
            if isinstance(n, ast.Call) and isinstance(n.func, ast.Attribute) and isinstance(n.func.value, ast.Name):
                nm = n.func.value.id
                if _is_local(f, nm) or nm in {a.arg for a in f.node.args.args} or nm in ("self", "cls"):
                    continue
                home = f.module
                rr = repo.resolve_name(f.module, nm)
                init = home.assigns.get(nm)
                if init is None and rr and rr[0] == "const" and len(rr) > 2 and hasattr(rr[2], "assigns"):
                    init = rr[2].assigns.get(nm)
                if isinstance(init, ast.Call):
                    cr = repo.resolve_expr(home, init.func)
                    cname = cr[1] if cr and cr[0] in ("ext", "builtin") else (cr[1].name if cr and cr[0] == "class" else ast.unparse(init.func))
                    if cname in STATELESS_FACTORIES or str(cname).startswith(("os.path.", "pathlib.")) or n.func.attr in READONLY_METHODS:
                        continue
                    bad.append((n, f"method call on {nm}, an object created at import by {cname}(): state shared by every call ({ast.unparse(n)[:50]})"))
        # aliases of shared containers: a name bound to a class-level / module-level container (depth 0: the object itself; depth 1: a
        # shallow copy - {**X}, dict(X), X.copy(), list(X), X | y - whose inner containers are still the shared ones)
        shared_names = set(cls_containers)
        alias = {}
        def shared_depth(expr):
            """0 = the shared object itself, 1 = a shallow copy of it, None = unrelated"""
            if isinstance(expr, ast.Attribute) and isinstance(expr.value, ast.Name) and expr.value.id in ("self", "cls") and expr.attr in cls_containers \
                    and expr.attr not in inst_attrs:
                return 0
            if isinstance(expr, ast.Attribute) and isinstance(expr.value, ast.Name):
                r_ = repo.resolve_name(f.module, expr.value.id)
                if r_ and r_[0] == "class" and expr.attr in r_[1].attrs and isinstance(r_[1].attrs[expr.attr], (ast.List, ast.Dict, ast.Set)):
                    return 0
            if isinstance(expr, ast.Name):
                if expr.id in alias:
                    return alias[expr.id]
                r_ = repo.resolve_name(f.module, expr.id)
                if r_ and r_[0] == "const" and not _is_local(f, expr.id) and expr.id not in {a.arg for a in f.node.args.args} \
                        and isinstance(f.module.assigns.get(expr.id), (ast.List, ast.Dict, ast.Set)):
                    return 0
                return None
            if isinstance(expr, ast.Dict):
                ds = [shared_depth(v) for k, v in zip(expr.keys, expr.values) if k is None]
                ds = [d for d in ds if d is not None]
                return 1 if ds else None
            if isinstance(expr, (ast.List, ast.Tuple, ast.Set)):
                ds = [shared_depth(v.value) for v in expr.elts if isinstance(v, ast.Starred)]
                ds = [d for d in ds if d is not None]
                return 1 if ds else None
            if isinstance(expr, ast.Call):
                fn_ = expr.func
                if isinstance(fn_, ast.Name) and fn_.id in ("dict", "list", "set", "tuple", "sorted", "reversed") and expr.args:
                    d = shared_depth(expr.args[0])
                    return 1 if d is not None else None
                if isinstance(fn_, ast.Attribute) and fn_.attr == "copy" and not expr.args:
                    d = shared_depth(fn_.value)
                    return 1 if d is not None else None
                return None
            if isinstance(expr, ast.BinOp) and isinstance(expr.op, (ast.BitOr, ast.Add)):
                ds = [d for d in (shared_depth(expr.left), shared_depth(expr.right)) if d is not None]
                return 1 if ds else None
            if isinstance(expr, ast.Subscript):
                d = shared_depth(expr.value)
                return 0 if d is not None else None  # an element of the shared container (or of its shallow copy) is shared itself
            if isinstance(expr, ast.IfExp):
                ds = [d for d in (shared_depth(expr.body), shared_depth(expr.orelse)) if d is not None]
                return min(ds) if ds else None
            return None
        for _ in range(3):
            for n in walk_no_nested(f.node):
                if isinstance(n, ast.Assign) and len(n.targets) == 1 and isinstance(n.targets[0], ast.Name):
                    d = shared_depth(n.value)
                    if d is not None and n.targets[0].id not in ("self", "cls"):
                        alias[n.targets[0].id] = min(d, alias.get(n.targets[0].id, d))
        if alias:
            for n in walk_no_nested(f.node):
                tg = []
                if isinstance(n, ast.Assign):
                    tg = n.targets
                elif isinstance(n, (ast.AugAssign, ast.AnnAssign)):
                    tg = [n.target]
                elif isinstance(n, ast.Delete):
                    tg = n.targets
                elif isinstance(n, ast.Call) and isinstance(n.func, ast.Attribute) and n.func.attr in MUTATORS:
                    tg = [ast.Subscript(value=n.func.value, slice=ast.Constant(0), ctx=ast.Store())]  # receiver treated as written one level below
                for t in tg:
                    base, depth = t, 0
                    while isinstance(base, (ast.Subscript, ast.Attribute)):
                        depth += 1
                        base = base.value
                    if isinstance(base, ast.Name) and base.id in alias and depth > alias[base.id]:
                        kind_ = "the shared object" if alias[base.id] == 0 else "an inner container of a shallow copy"
                        bad.append((n, f"write through {base.id}, {kind_} of a class-level / module-level container: {ast.unparse(n)[:70]}"))
        # default values are evaluated once: a mutable object (container literal or an object constructed in the signature) that the
        # function modifies, hands on or returns is state shared between calls
        par = None
        pos = f.node.args.posonlyargs + f.node.args.args
        pairs = list(zip(reversed(f.node.args.defaults), reversed(pos))) + [
            (d, a_) for d, a_ in zip(f.node.args.kw_defaults, f.node.args.kwonlyargs) if d is not None]
        for d, arg in pairs:
            mutable = isinstance(d, (ast.List, ast.Dict, ast.Set, ast.ListComp, ast.DictComp, ast.SetComp))
            if isinstance(d, ast.Call):
                r = repo.resolve_expr(f.module, d.func)
                name = r[1] if r and r[0] in ("ext", "builtin") else None
                mutable = name not in IMMUTABLE_CTORS and not (r and r[0] == "class" and ctx.ev.is_enum(r[1]))
            if not mutable:
                continue
            par = par or parents_of(f.node)
            for x in walk_no_nested(f.node):
                if not (isinstance(x, ast.Name) and x.id == arg.arg and isinstance(x.ctx, ast.Load)):
                    continue
                pp = par.get(x)
                why = None
                if isinstance(pp, ast.Attribute) and pp.value is x:
                    g = par.get(pp)
                    if isinstance(g, ast.Call) and g.func is pp and pp.attr not in READONLY_METHODS:
                        why = f".{pp.attr}() called on it"
                    elif isinstance(pp.ctx, ast.Store):
                        why = f".{pp.attr} assigned"
                elif isinstance(pp, ast.Subscript) and pp.value is x and isinstance(pp.ctx, (ast.Store, ast.Del)):
                    why = "item assigned"
                elif isinstance(pp, ast.Call) and (x in pp.args or any(k.value is x for k in pp.keywords)):
                    fnr = repo.resolve_expr(f.module, pp.func)
                    if not (fnr and fnr[0] == "builtin" and fnr[1] in ("len", "isinstance", "bool", "sorted", "list", "dict", "tuple", "set", "str", "repr")):
                        why = f"passed to {ast.unparse(pp.func)[:40]}()"
                elif isinstance(pp, ast.Return):
                    why = "returned"
                elif isinstance(pp, ast.AugAssign) and pp.target is x:
                    why = "augmented in place"
                if why:
                    bad.append((f.node, f"mutable default argument {arg.arg}={ast.unparse(d)[:30]}: {why} (one object shared by every call)"))
                    break
        if fq in allow:
            bad = [b for b in bad if False]
        if bad:
            for n, what in bad:
                R.fail("C18-D2 no shared state written after import", f"{fq}: {what}", mod=f.module, node=n, function=fq,
                       expected="results do not depend on what was processed earlier in the process", found=what, key_extra=what)
        else:
            R.ok("C18-D2 no shared state written after import", fq)
    # update_wrapper allow-list entry must still have the reviewed shape
    w = repo.mod("suit_generator.suit.types.common").functions.get("cbstr.<locals>.Cbstr.__init__")
    if w is not None:
        R.rule("C18-D2b reviewed exception", 1, "the allow-listed wrapper update has the reviewed shape")
        wo = Evaluator(repo, inline_depth=0).outcomes(w)
        effs = [e for o in wo for e in o.effects if isinstance(e, App) and e.op.startswith("eff:") and e.op not in ("eff:assume", "eff:log")]
        shape = len(wo) == 1 and len(effs) == 2 and all(e.op == "eff:call" for e in effs) \
            and effs[0].args[0] == App("call:functools.update_wrapper", (Sym("free:Cbstr"), Sym("free:cls"), App("kw", (Const("updated"), Const([]))))) \
            and isinstance(effs[1].args[0], App) and effs[1].args[0].op == "supercall:__init__"
        R.check("C18-D2b reviewed exception", shape, "Cbstr.__init__",
                mod=w.module, node=w.node, function=ctx.fq(w), expected="only functools.update_wrapper(Cbstr, cls, updated=[]) and super().__init__",
                found="shape changed")
    # metadata patches: only at module level
    R.rule("C18-D2c metadata written only at import", 3, "every write to a _metadata table is a module-level statement")
    for m, stmt, toplevel in S.patch_stmts:
        R.check("C18-D2c metadata written only at import", toplevel, f"{m.relpath}: {ast.unparse(stmt)[:70]}", mod=m, node=stmt, function=m.name,
                expected="module top level (executed once at import)", found="inside a function or class body")
    # module-level mutable state in the packages: informational count
    R.analysed["functions_scanned_for_shared_state"] = count


def _is_local(f, name):
    for n in walk_no_nested(f.node):
        if isinstance(n, ast.Name) and n.id == name and isinstance(n.ctx, ast.Store):
            return True
    return False


def per_call_state(ctx):
    R = ctx.report
    repo = ctx.repo
    R.rule("C18-D3 per-call state of signer / encryptor", 3, "every instance attribute read during a call was assigned earlier in the same call")
    cases = [("ncs.sign_script", "Signer.sign_envelope", 4), ("ncs.encrypt_script", "Encryptor.encrypt_and_generate", 4),
             ("ncs.encrypt_script", "Encryptor.generate", 4)]
    for mod, q, depth in cases:
        f = repo.func(mod, q)
        ev = Evaluator(repo, inline_depth=depth)
        outs = ev.outcomes(f)
        assigned = set()
        for c in repo.mro(f.cls):
            for m in c.methods.values():
                for n in ast.walk(m.node):
                    if isinstance(n, ast.Attribute) and isinstance(n.ctx, ast.Store) and isinstance(n.value, ast.Name) and n.value.id == "self":
                        assigned.add(n.attr)
        stale = set()
        selft = Sym("param:self")
        for o in outs:
            terms = list(o.conds) + list(all_effects(o.effects)) + ([o.value] if o.value is not None else [])
            for t in terms:
                for s in subterms(t):
                    if isinstance(s, App) and s.op.startswith("attr:") and s.args and s.args[0] == selft and s.op[5:] in assigned:
                        stale.add(s.op[5:])
        R.check("C18-D3 per-call state of signer / encryptor", not stale, ctx.fq(f), mod=f.module, node=f.node, function=ctx.fq(f),
                expected="attributes are (re)assigned at the start of each call", found=f"read before being assigned in this call: {sorted(stale)} "
                         f"(value left over from an earlier call)")


def loaders(ctx):
    R = ctx.report
    repo = ctx.repo
    ev = Evaluator(repo, inline_depth=0)
    R.rule("C18-D4 format independence", 4, "JSON and YAML loaders return the parsed description unmodified; load() stores it; both reach the same encoder")
    P = lambda n: Sym("param:" + n)
    j = repo.func("suit_generator.input_output", "InputOutputMixin.from_json_file")
    y = repo.func("suit_generator.input_output", "InputOutputMixin.from_yaml_file")
    jo = [o for o in ev.outcomes(j) if o.kind == "return"]
    yo = [o for o in ev.outcomes(y) if o.kind == "return"]
    R.check("C18-D4 format independence", len(jo) == 1 and isinstance(jo[0].value, App) and jo[0].value.op == "call:json.load"
            and not any(isinstance(a, App) and a.op == "kw" and a.args[0].v in ("object_hook", "object_pairs_hook") for a in jo[0].value.args),
            "from_json_file", mod=j.module, node=j.node, function=ctx.fq(j), expected="return json.load(fh)", found=repr(jo[0].value)[:160] if jo else "?")
    R.check("C18-D4 format independence", len(yo) == 1 and isinstance(yo[0].value, App) and yo[0].value.op == "call:yaml.load"
            and any(isinstance(a, App) and a.op == "kw" and "SafeLoader" in repr(a.args[1]) for a in yo[0].value.args),
            "from_yaml_file", mod=y.module, node=y.node, function=ctx.fq(y), expected="return yaml.load(fh, Loader=yaml.SafeLoader)",
            found=repr(yo[0].value)[:160] if yo else "?")
    ld = repo.func("suit_generator.envelope", "SuitEnvelope.load")
    lo = [o for o in ev.outcomes(ld) if o.kind == "return"]
    sets = [e for o in lo for e in all_effects(o.effects) if isinstance(e, App) and e.op == "eff:setattr" and e.args[1] == Const("_envelope")]

    def through(t, getter):
        return isinstance(t, App) and t.op == "call" and isinstance(t.args[0], App) and t.args[0].op == "call" and isinstance(t.args[0].args[0], Ref) \
            and t.args[0].args[0].obj.name == getter
    ok = len(sets) == 1 and through(sets[0].args[2], "get_deserializer") and list(sets[0].args[2].args[1:]) == [Sym("param:file_name")]
    R.check("C18-D4 format independence", ok, "load() keeps the loader's result as is", mod=ld.module,
            node=ld.node, function=ctx.fq(ld), expected="self._envelope = load_method(file_name)", found=f"{[repr(e)[:160] for e in sets]}")
    dp = repo.func("suit_generator.envelope", "SuitEnvelope.dump")
    do = [o for o in ev.outcomes(dp) if o.kind == "return"]
    dcalls = [e.args[0] for o in do for e in all_effects(o.effects) if isinstance(e, App) and e.op == "eff:call" and through(e.args[0], "get_serializer")]
    ok = len(dcalls) == 1 and list(dcalls[0].args[1:]) == [Sym("param:file_name"), App("attr:_envelope", (Sym("param:self"),)), Sym("param:parse_hierarchy")]
    R.check("C18-D4 format independence", ok, "dump() hands the stored description to the serializer",
            mod=dp.module, node=dp.node, function=ctx.fq(dp), expected="dump_method(file_name, self._envelope, parse_hierarchy)", found=f"{[repr(c)[:200] for c in dcalls]}")
    # informational: parameters mutated in place on the create path
    f = repo.func("suit_generator.suit.security", "SuitDigestExt.from_obj")
    n = sum(1 for x in ast.walk(f.node) if isinstance(x, ast.Subscript) and isinstance(x.ctx, ast.Store) and isinstance(x.value, ast.Name) and x.value.id == "obj")
    R.info(f"informational: SuitDigestExt.from_obj fills digests into the caller's description in place ({n} stores); values are input-determined")
