#!/venv/bin/python
"""Whole-tree behaviour-preserving transformations: every check must stay silent (exit 0) on each of them.

usage: benign_global.py [--transform NAME[,NAME]] [--props C01,C02] [--run-tests] [--keep]

The transformations rewrite every module of suit_generator/ and ncs/ of a scratch copy (under /var/tmp, removed afterwards):
  fmt        ast.unparse round trip (formatting, comments, quotes)
  tmpret     `return <expr>` -> `_result_value = <expr>; return _result_value`, and a dead marker assignment at function entry
  locals     every local variable (not parameters, not globals/nonlocals, not names used by nested scopes) gets a new name
  negif      `if c: A else: B` -> `if not c: B else: A`
  reorder    consecutive method / function definitions are put in reverse order
  logging    a logging.getLogger('trace').debug('enter') statement at the entry of every function
  all        the composition of the above
--run-tests additionally runs the pinned test suite on the transformed copy (tools/baseline_check.py) to confirm that the
transformation itself preserved behaviour.
Prints one line per (transformation, property) that is not exit 0; exit status 1 if there is any."""
import argparse, ast, os, shutil, subprocess, symtable, sys, tempfile
from concurrent.futures import ThreadPoolExecutor
from pathlib import Path

VERIF = Path(__file__).resolve().parent.parent
ALL = [f"C{i:02d}" for i in range(1, 21)]
COPY = ("suit_generator", "ncs", "build_configuration", "requirements.txt", "tests", "pyproject.toml", "setup.py", "pytest.ini", "setup.cfg",
        "examples", "README.md", "MANIFEST.in")


class TmpRet(ast.NodeTransformer):
    def _fn(self, node):
        self.generic_visit(node)
        i = 1 if (node.body and isinstance(node.body[0], ast.Expr) and isinstance(getattr(node.body[0], "value", None), ast.Constant)
                  and isinstance(node.body[0].value.value, str)) else 0
        node.body.insert(i, ast.parse("_trace_marker = None").body[0])
        return node

    visit_FunctionDef = _fn

    def visit_Return(self, node):
        if node.value is None or isinstance(node.value, (ast.Name, ast.Constant)):
            return node
        a = ast.Assign(targets=[ast.Name(id="_result_value", ctx=ast.Store())], value=node.value, lineno=0)
        return [a, ast.Return(value=ast.Name(id="_result_value", ctx=ast.Load()))]


class AddLogging(ast.NodeTransformer):
    """A diagnostic statement at the entry of every function (needs `import logging` in the module)."""

    def _fn(self, node):
        self.generic_visit(node)
        i = 1 if (node.body and isinstance(node.body[0], ast.Expr) and isinstance(getattr(node.body[0], "value", None), ast.Constant)
                  and isinstance(node.body[0].value.value, str)) else 0
        node.body.insert(i, ast.parse("logging.getLogger('trace').debug('enter')").body[0])
        return node

    visit_FunctionDef = _fn

    def visit_Module(self, node):
        self.generic_visit(node)
        i = 0
        while i < len(node.body) and ((isinstance(node.body[i], ast.Expr) and isinstance(getattr(node.body[i], "value", None), ast.Constant))
                                      or (isinstance(node.body[i], ast.ImportFrom) and node.body[i].module == "__future__")):
            i += 1
        node.body.insert(i, ast.parse("import logging").body[0])
        return node


class NegIf(ast.NodeTransformer):
    def visit_If(self, node):
        self.generic_visit(node)
        if node.orelse and not (len(node.orelse) == 1 and isinstance(node.orelse[0], ast.If)):
            node.test, node.body, node.orelse = ast.UnaryOp(op=ast.Not(), operand=node.test), node.orelse, node.body
        return node


class Reorder(ast.NodeTransformer):
    @staticmethod
    def _plain(s):
        if not isinstance(s, ast.FunctionDef):
            return False
        for d in s.decorator_list:
            t = ast.unparse(d)
            if t.endswith((".setter", ".getter", ".deleter")) or t in ("property", "overload", "typing.overload"):
                return False
        return True

    def _body(self, body, cls):
        out, run = [], []
        for s in body + [None]:
            if s is not None and self._plain(s):
                run.append(s)
            else:
                out.extend(reversed(run))
                run = []
                if s is not None:
                    out.append(s)
        return out

    def visit_ClassDef(self, node):
        self.generic_visit(node)
        node.body = self._body(node.body, True)
        return node

    def visit_Module(self, node):
        self.generic_visit(node)
        node.body = self._body(node.body, False)
        return node


def rename_locals(src: str, fname: str) -> str:
    """Rename function-local variables using symtable for the scoping facts."""
    tree = ast.parse(src)
    top = symtable.symtable(src, fname, "exec")
    by_line = {}

    def collect(t):
        if t.get_type() == "function":
            by_line.setdefault((t.get_name(), t.get_lineno()), t)
        for c in t.get_children():
            collect(c)
    collect(top)

    class R(ast.NodeTransformer):
        def __init__(self):
            self.stack = []

        def visit_FunctionDef(self, node):
            t = by_line.get((node.name, node.lineno))
            if t is None and node.decorator_list:
                t = by_line.get((node.name, node.decorator_list[0].lineno))
            ren = {}
            if t is not None and not any(isinstance(n, ast.Call) and isinstance(n.func, ast.Name) and n.func.id in ("locals", "vars", "eval", "exec")
                                         for n in ast.walk(node)):
                inner_free = set()

                def frees(c):
                    for s in c.get_symbols():
                        if s.is_free() or s.is_global():
                            inner_free.add(s.get_name())
                    for cc in c.get_children():
                        frees(cc)
                for c in t.get_children():
                    frees(c)
                for s in t.get_symbols():
                    n = s.get_name()
                    if s.is_local() and not s.is_parameter() and not s.is_free() and not s.is_global() and not s.is_nonlocal() \
                            and s.is_assigned() and not s.is_imported() and n not in inner_free and not n.startswith("__") \
                            and not s.is_namespace():
                        ren[n] = n + "_lv"
            self.stack.append(ren)
            node.body = [self.visit(s) for s in node.body]
            self.stack.pop()
            return node

        def _skip(self, node):
            # nested scopes (lambda, comprehension, class) are left alone together with the names they use (inner_free)
            return self.generic_visit(node)

        def visit_Name(self, node):
            if self.stack and node.id in self.stack[-1]:
                node.id = self.stack[-1][node.id]
            return node

        def visit_ExceptHandler(self, node):
            if self.stack and node.name in self.stack[-1]:
                node.name = self.stack[-1][node.name]
            return self.generic_visit(node)

        def visit_Lambda(self, node):
            self.stack.append({})
            r = self.generic_visit(node)
            self.stack.pop()
            return r

        def visit_ClassDef(self, node):
            self.stack.append({})
            r = self.generic_visit(node)
            self.stack.pop()
            return r

    # comprehension scopes: symtable reports names used inside them as free in the child => already excluded via inner_free
    t = R().visit(tree)
    ast.fix_missing_locations(t)
    return ast.unparse(t) + "\n"


def apply(root: Path, name: str):
    files = list((root / "suit_generator").rglob("*.py")) + list((root / "ncs").rglob("*.py"))
    for p in files:
        src = p.read_text()
        if name == "fmt":
            out = ast.unparse(ast.parse(src)) + "\n"
        elif name in ("tmpret", "negif", "reorder", "logging"):
            t = {"tmpret": TmpRet, "negif": NegIf, "reorder": Reorder, "logging": AddLogging}[name]().visit(ast.parse(src))
            ast.fix_missing_locations(t)
            out = ast.unparse(t) + "\n"
        elif name == "locals":
            out = rename_locals(ast.unparse(ast.parse(src)) + "\n", str(p))
        else:
            raise SystemExit(f"unknown transformation {name}")
        p.write_text(out)


def run_check(prop, repo):
    pr = subprocess.run([str(VERIF / "check"), prop, "--repo", str(repo), "--no-write"], capture_output=True, text=True, cwd=str(VERIF))
    first = next((l.strip() for l in pr.stdout.splitlines() if l.startswith("  ") and "[" in l), "")
    if pr.returncode == 2:
        first = next((l for l in pr.stdout.splitlines() if "ANALYSIS-ERROR" in l), "")
    return prop, pr.returncode, first[:260]


def run_for_prop(prop, repo_root="/repo", names=("fmt", "tmpret", "locals", "negif", "reorder", "logging", "all")):
    """Used by the thorough tier: [(transformation, exit code, first line)] of the property's check on each transformed copy."""
    out = []

    def one(name):
        d = Path(tempfile.mkdtemp(prefix=f"sgbenign_{name}_", dir="/var/tmp"))
        try:
            for c in ("suit_generator", "ncs", "build_configuration", "requirements.txt"):
                src = Path(repo_root) / c
                if src.is_dir():
                    shutil.copytree(src, d / c, ignore=shutil.ignore_patterns("__pycache__", "*.pyc"))
                elif src.is_file():
                    shutil.copy(src, d / c)
            for step in (["tmpret", "locals", "negif", "reorder", "logging"] if name == "all" else [name]):
                apply(d, step)
            for p_ in list((d / "suit_generator").rglob("*.py")) + list((d / "ncs").rglob("*.py")):
                compile(p_.read_text(), str(p_), "exec")
            _, rc, first = run_check(prop, d)
            return name, rc, first
        except SyntaxError as e:
            return name, -1, f"transformed tree does not compile: {e}"
        finally:
            shutil.rmtree(d, ignore_errors=True)
    with ThreadPoolExecutor(6) as ex:
        out = list(ex.map(one, names))
    return out


def main():
    ap = argparse.ArgumentParser()
    ap.add_argument("--transform", default="fmt,tmpret,locals,negif,reorder,logging,all")
    ap.add_argument("--props", default="all")
    ap.add_argument("--run-tests", action="store_true")
    ap.add_argument("--keep", action="store_true")
    a = ap.parse_args()
    props = ALL if a.props == "all" else a.props.split(",")
    bad = 0
    for name in a.transform.split(","):
        d = Path(tempfile.mkdtemp(prefix=f"sgbenign_{name}_", dir="/var/tmp"))
        try:
            for c in COPY:
                src = Path("/repo") / c
                if src.is_dir():
                    shutil.copytree(src, d / c, ignore=shutil.ignore_patterns("__pycache__", "*.pyc"))
                elif src.is_file():
                    shutil.copy(src, d / c)
            for step in (["tmpret", "locals", "negif", "reorder", "logging"] if name == "all" else [name]):
                apply(d, step)
            r = subprocess.run(["/venv/bin/python", "-m", "compileall", "-q", "suit_generator", "ncs"], cwd=str(d), capture_output=True, text=True)
            if r.returncode != 0:
                print(f"{name}: transformed tree does not compile: {r.stdout[-300:]}")
                bad += 1
                continue
            if a.run_tests:
                r = subprocess.run(["/venv/bin/python", str(VERIF / "tools" / "baseline_check.py"), str(d)], capture_output=True, text=True)
                print(f"{name}: tests: {r.stdout.strip().splitlines()[0] if r.stdout.strip() else r.stderr[-200:]}")
                for l in r.stdout.splitlines()[1:6]:
                    print("   ", l)
            with ThreadPoolExecutor(10) as ex:
                res = list(ex.map(lambda p: run_check(p, d), props))
            fails = [(p, rc, f) for p, rc, f in res if rc != 0]
            print(f"{name}: {len(res) - len(fails)}/{len(res)} checks silent")
            for p, rc, f in fails:
                bad += 1
                print(f"   {p} rc={rc} {f}")
        finally:
            if a.keep:
                print(f"kept {d}")
            else:
                shutil.rmtree(d, ignore_errors=True)
    return 1 if bad else 0


if __name__ == "__main__":
    sys.exit(main())
