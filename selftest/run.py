#!/venv/bin/python
"""Sensitivity / specificity audit of the checkers.

Each variant is a small edit of the current source (exact-substring replacement that must match once).
The edit is applied to a scratch copy under /var/tmp, the property's check runs with --repo <copy>, and the
copy is removed immediately.  *break* variants must give exit 1 with a VIOLATION line, *benign* variants exit 0.

usage: selftest/run.py [--prop Cxx] [--jobs N] [--only id] [-v]
"""
from __future__ import annotations

import argparse
import json
import os
import shutil
import subprocess
import sys
import tempfile
from concurrent.futures import ThreadPoolExecutor
from pathlib import Path

HERE = Path(__file__).resolve().parent
VERIF = HERE.parent
sys.path.insert(0, str(HERE))

COPY = ("suit_generator", "ncs", "build_configuration", "requirements.txt")


def load_variants():
    """Hand-written variants plus the seeded changes kept under /verif/seeded (patch.diff; expected to fire: meta.json checks.fired)."""
    from variants import VARIANTS
    out = list(VARIANTS)
    for d in sorted((VERIF / "seeded").glob("*/meta.json")):
        meta = json.loads(d.read_text())
        fired = (meta.get("checks") or {}).get("fired") or []
        if fired:
            out.append({"id": "seeded-" + meta["id"], "kind": "break", "props": list(fired), "edits": [], "patch": str(d.parent / "patch.diff"),
                        "silent": []})
    return out


def make_copy(repo: Path) -> Path:
    d = Path(tempfile.mkdtemp(prefix="sgv_", dir="/var/tmp"))
    for c in COPY:
        src = repo / c
        if src.is_dir():
            shutil.copytree(src, d / c, ignore=shutil.ignore_patterns("__pycache__", "*.pyc"))
        elif src.is_file():
            shutil.copy(src, d / c)
    return d


def run_variant(v, repo: Path, verbose=False):
    d = make_copy(repo)
    try:
        if v.get("patch"):
            r = subprocess.run(["patch", "-p1", "-s", "-d", str(d), "-i", v["patch"]], capture_output=True, text=True)
            if r.returncode != 0:
                return {"id": v["id"], "status": "STALE", "detail": f"patch does not apply: {(r.stdout + r.stderr)[-200:]}"}
        for edit in v["edits"]:
            rel, old, new = edit[:3]
            every = len(edit) > 3 and edit[3] == "all"
            p = d / rel
            s = p.read_text()
            if (s.count(old) != 1 and not every) or s.count(old) == 0:
                return {"id": v["id"], "status": "STALE", "detail": f"{rel}: pattern matches {s.count(old)} times"}
            p.write_text(s.replace(old, new))
            if rel.endswith(".py"):
                try:
                    compile(p.read_text(), str(p), "exec")
                except SyntaxError as e:
                    return {"id": v["id"], "status": "STALE", "detail": f"variant does not compile: {e}"}
        res = {}
        for prop in v["props"]:
            pr = subprocess.run([str(VERIF / "check"), prop, "--repo", str(d), "--no-write"], capture_output=True,
                                text=True, cwd=str(VERIF))
            res[prop] = (pr.returncode, pr.stdout[-1500:] + pr.stderr[-500:])
        want = 1 if v["kind"] == "break" else 0
        ok = all(rc == want for rc, _ in res.values())
        if v["kind"] == "break":
            ok = ok and all("VIOLATION property=" in out for _, out in res.values())
        # checks that must stay silent on a breaking variant of another property
        silent = {}
        for prop in v.get("silent", []):
            pr = subprocess.run([str(VERIF / "check"), prop, "--repo", str(d), "--no-write"], capture_output=True,
                                text=True, cwd=str(VERIF))
            silent[prop] = pr.returncode
            ok = ok and pr.returncode == 0
        out = {"id": v["id"], "kind": v["kind"], "status": "OK" if ok else "FAIL",
               "rc": {p: rc for p, (rc, _) in res.items()}, "silent": silent}
        if not ok or verbose:
            out["detail"] = {p: o for p, (_, o) in res.items()}
        return out
    finally:
        shutil.rmtree(d, ignore_errors=True)


def main():
    ap = argparse.ArgumentParser()
    ap.add_argument("--prop")
    ap.add_argument("--only")
    ap.add_argument("--jobs", type=int, default=min(16, os.cpu_count() or 4))
    ap.add_argument("--repo", default="/repo")
    ap.add_argument("-v", action="store_true")
    a = ap.parse_args()
    vs = load_variants()
    if a.prop:
        vs = [v for v in vs if a.prop.upper() in v["props"]]
    if a.only:
        vs = [v for v in vs if v["id"] == a.only]
    repo = Path(a.repo)
    with ThreadPoolExecutor(a.jobs) as ex:
        results = list(ex.map(lambda v: run_variant(v, repo, a.v), vs))
    bad = [r for r in results if r["status"] != "OK"]
    for r in results:
        line = f"{r['status']:5} {r.get('kind', ''):6} {r['id']} {r.get('rc', '')}"
        print(line)
        if r["status"] != "OK" or a.v:
            d = r.get("detail")
            if isinstance(d, dict):
                for p, o in d.items():
                    print("    --", p, "\n      " + o.replace("\n", "\n      ")[-1200:])
            elif d:
                print("    ", d)
    print(f"{len(results) - len(bad)}/{len(results)} variants behave as expected")
    return 1 if bad else 0


if __name__ == "__main__":
    sys.exit(main())
