"""Variant corpus: breaking edits that must be reported and benign edits that must stay silent."""

K = "suit_generator/suit/types/keys.py"
C = "suit_generator/suit/types/common.py"
M = "suit_generator/suit/manifest.py"
SEC = "suit_generator/suit/security.py"
ENV = "suit_generator/suit/envelope.py"
PAY = "suit_generator/suit/payloads.py"
IO = "suit_generator/input_output.py"
TOPENV = "suit_generator/envelope.py"
IMG = "suit_generator/cmd_image.py"
MPI = "suit_generator/cmd_mpi.py"
CACHE = "suit_generator/cmd_cache_create.py"
PEX = "suit_generator/cmd_payload_extract.py"
SIGNCMD = "suit_generator/cmd_sign.py"
ENCCMD = "suit_generator/cmd_encrypt.py"
KEYS = "suit_generator/cmd_keys.py"
CONV = "suit_generator/cmd_convert.py"
SIGN = "ncs/sign_script.py"
KMS = "ncs/basic_kms.py"
ENC = "ncs/encrypt_script.py"
BUILD = "ncs/build.py"
ROOT_T = "ncs/root_with_nordic_top_envelope.yaml.jinja2"
TOP_T = "ncs/nordic_top_envelope.yaml.jinja2"
CFG = "build_configuration/configuration.py"

VARIANTS = []


def brk(id, props, *edits, silent=()):
    VARIANTS.append({"id": id, "kind": "break", "props": list(props), "edits": list(edits), "silent": list(silent)})


def ben(id, props, *edits):
    VARIANTS.append({"id": id, "kind": "benign", "props": list(props), "edits": list(edits)})


# ------------------------------------------------------------------ C08 / C02 tables
brk("c08-swap-id", ["C08", "C02"], (K, 'id = 31\n    name = "suit-directive-swap"', 'id = 30\n    name = "suit-directive-swap"'))
brk("c08-dup-code", ["C08"], (K, 'id = 33\n    name = "suit-directive-unlink"', 'id = 32\n    name = "suit-directive-unlink"'))
brk("c08-rename", ["C08"], (K, 'name = "suit-condition-abort"', 'name = "suit-condition-abrt"'))
brk("c08-cwt-claim", ["C08"], (K, 'id = 7\n    name = "CW ID"', 'id = 8\n    name = "CW ID"'))
brk("c08-a192kw", ["C08"], (K, 'id = -4\n    name = "cose-alg-a192kw"', 'id = -3\n    name = "cose-alg-a192kw"'))
brk("c08-tag", ["C08", "C02"], (SEC, 'tag=Tag(96, "CoseEncryptTagged")', 'tag=Tag(16, "CoseEncryptTagged")'))
brk("c08-policy-bit", ["C08"], (K, 'id = 8\n    name = "suit-send-sysinfo-failure"', 'id = 16\n    name = "suit-send-sysinfo-failure"'))
brk("c08-restated-es521", ["C08"], (SIGN, "COSE_ALG_ES_521 = -36", "COSE_ALG_ES_521 = -37"))
brk("c08-restated-keyid", ["C08"], (ENC, "COSE_KEY_ID = 4", "COSE_KEY_ID = 3"))
brk("c08-lookup-by-id-in-from-obj", ["C08", "C02"], (C, 'if child := cls._get_method_and_name(k, "name"):', 'if child := cls._get_method_and_name(k, "id"):'))
brk("c08-key-moved-to-wrong-space", ["C08"],
    (M, "            suit_condition_version: SuitRepPolicy,\n", "            suit_condition_version: SuitRepPolicy,\n            suit_parameter_uri: SuitRepPolicy,\n"))
brk("c08-enum-accepts-any", ["C08"], (C, "if value not in [i.name for i in self._metadata.children]:", "if False:"))
ben("c08-reformat-keys", ["C08", "C02"], (K, 'class suit_directive_swap(suit_key):\n    """suit-directive-swap metadata."""\n\n    id = 31\n    name = "suit-directive-swap"',
                                         'class suit_directive_swap(suit_key):\n    """swap."""\n    name = "suit-directive-swap"\n    id = 0x1F'))
ben("c08-new-vocabulary", ["C08", "C02"],
    (K, 'class suit_timeout(suit_key):', 'class suit_priv_extension(suit_key):\n    """private."""\n\n    id = 99\n    name = "suit-priv-extension"\n\n\nclass suit_timeout(suit_key):'),
    (M, "from suit_generator.suit.types.keys import (", "from suit_generator.suit.types.keys import (\n    suit_priv_extension,"),
    (M, "            suit_parameter_version: cbstr(SuitParameterVersion),\n", "            suit_parameter_version: cbstr(SuitParameterVersion),\n            suit_priv_extension: SuitUint,\n"))

# ------------------------------------------------------------------ C02 shape / encoders
brk("c02-drop-cbstr-param-digest", ["C02"], (M, "suit_parameter_image_digest: cbstr(SuitDigest),", "suit_parameter_image_digest: SuitDigest,"))
brk("c02-extra-cbstr-uri", ["C02"], (M, "suit_parameter_uri: SuitTstr,", "suit_parameter_uri: cbstr(SuitTstr),"))
brk("c02-group-3", ["C02"], (M, "    _metadata = Metadata(children=[SuitCommand])\n    _group = 2", "    _metadata = Metadata(children=[SuitCommand])\n    _group = 3"))
brk("c02-union-order-compid", ["C02"], (M, "children=[SuitUUID, SuitBchar, cbstr(SuitTstr), cbstr(SuitInt), SuitBstr]", "children=[SuitUUID, SuitBchar, cbstr(SuitInt), cbstr(SuitTstr), SuitBstr]"))
brk("c02-canonical", ["C02"], (C, "            return cbor2.dumps(obj)\n        except Exception:\n            raise ValueError(\"Cannot serialize data!\")", "            return cbor2.dumps(obj, canonical=True)\n        except Exception:\n            raise ValueError(\"Cannot serialize data!\")"))
brk("c02-sorted-items", ["C02"], (C, "        data = {}\n        for k, v in self.value.items():\n            if k is suit_integrated_payloads", "        data = {}\n        for k, v in sorted(self.value.items(), key=lambda kv: kv[0].id):\n            if k is suit_integrated_payloads"))
brk("c02-cbstr-double", ["C02"], (C, "            return cbor2.dumps(super().to_cbor())", "            return cbor2.dumps(cbor2.dumps(super().to_cbor()))"))
brk("c02-tuple-position-swap", ["C02"], (SEC, '            "protected": cbstr(SuitHeaderMap),\n            "unprotected": SuitHeaderData,\n            "payload": CoseSign1Payload,', '            "unprotected": SuitHeaderData,\n            "protected": cbstr(SuitHeaderMap),\n            "payload": CoseSign1Payload,'))
brk("c02-bitfield-32", ["C02"], (M, "    _bit_class = SuitRepPolicyBits\n    _bit_length = 8", "    _bit_class = SuitRepPolicyBits\n    _bit_length = 4"))
brk("c02-value-dependent-wrap", ["C02"], (C, '    def to_cbor(self) -> bytes:\n        """Dump SUIT representation to cbor encoded bytes."""\n        return self.value.to_cbor()',
                                          '    def to_cbor(self) -> bytes:\n        """Dump SUIT representation to cbor encoded bytes."""\n        if len(self.value.to_cbor()) > 255:\n            return self.serialize_cbor(self.value.to_cbor())\n        return self.value.to_cbor()'))
brk("c02-flatten-only-payloads", ["C02"], (C, "            if k is suit_integrated_payloads or k is suit_integrated_dependencies:\n                data.update(", "            if k is suit_integrated_payloads:\n                data.update("))
brk("c02-try-each-unwrapped", ["C02"], (M, "    _metadata = Metadata(children=[cbstr(SuitCommandSequence)])", "    _metadata = Metadata(children=[SuitCommandSequence])"))
ben("c02-rename-class", ["C02", "C08"], (M, "SuitRepPolicy", "SuitReportingPolicy", "all"))
ben("c02-reorder-map-entries", ["C02", "C08"], (M, "            suit_directive_fetch: SuitRepPolicy,\n            suit_directive_copy: SuitRepPolicy,", "            suit_directive_copy: SuitRepPolicy,\n            suit_directive_fetch: SuitRepPolicy,"))

# ------------------------------------------------------------------ C12 MPI
brk("c12-dp-swapped", ["C12"], (MPI, '        if downgrade_prevention_enabled:\n            downgrade_prevention_enabled_bytes = b"\\02"\n        else:\n            downgrade_prevention_enabled_bytes = b"\\01"', '        if downgrade_prevention_enabled:\n            downgrade_prevention_enabled_bytes = b"\\01"\n        else:\n            downgrade_prevention_enabled_bytes = b"\\02"'))
brk("c12-sv-boot-2", ["C12"], (MPI, 'signature_verification_bytes = b"\\03"', 'signature_verification_bytes = b"\\02"'))
brk("c12-reserved-11", ["C12"], (MPI, '+ b"\\xff" * 12  # Reserved', '+ b"\\xff" * 11  # Reserved'))
brk("c12-pad-zero", ["C12"], (MPI, 'mpi_hex.frombytes(mpi.ljust(size, b"\\xff"), address)', 'mpi_hex.frombytes(mpi.ljust(size, b"\\x00"), address)'))
brk("c12-cid-flat", ["C12", "C13"], (MPI, "        cid = uuid.uuid5(vid, class_name)\n\n        if downgrade", "        cid = uuid.uuid5(uuid.NAMESPACE_DNS, class_name)\n\n        if downgrade"))
brk("c12-vid-cid-swapped", ["C12"], (MPI, "            + vid.bytes\n            + cid.bytes", "            + cid.bytes\n            + vid.bytes"))
brk("c12-bounds-off-by-one", ["C12"], (MPI, "(slot_hex.maxaddr() > address + size - 1)", "(slot_hex.maxaddr() > address + size)"))
brk("c12-bounds-no-min", ["C12"], (MPI, "if (slot_hex.minaddr() < address) or (slot_hex.maxaddr() > address + size - 1):", "if slot_hex.maxaddr() > address + size - 1:"))
brk("c12-overlap-replace", ["C12"], (MPI, "merged_hex.merge(slot_hex)", "merged_hex.merge(slot_hex, overlap=\"replace\")"))
brk("c12-tobinstr-exclusive", ["C12"], (MPI, "merged_hex.tobinstr(start=address, end=address + size - 1)", "merged_hex.tobinstr(start=address, end=address + size)"))
brk("c12-padding-after", ["C12"], (MPI, "        merged_hex.padding = 0xFF\n        merged_bin = merged_hex.tobinstr(start=address, end=address + size - 1)", "        merged_bin = merged_hex.tobinstr(start=address, end=address + size - 1)\n        merged_hex.padding = 0xFF"))
brk("c12-sha-of-prefix", ["C12"], (MPI, "hash_func.update(merged_bin)", "hash_func.update(merged_bin[:-1])"))
brk("c12-sha512", ["C12"], (MPI, "hash_func = hashes.Hash(hashes.SHA256(), backend=default_backend())", "hash_func = hashes.Hash(hashes.SHA512(), backend=default_backend())"))
brk("c12-main-swap", ["C12"], (MPI, '            kwargs["address"],\n            kwargs["size"],\n            kwargs["downgrade_prevention_enabled"],', '            kwargs["size"],\n            kwargs["address"],\n            kwargs["downgrade_prevention_enabled"],'))
brk("c12-choices", ["C12"], (MPI, 'choices=["update", "update-and-boot"],', 'choices=["update", "update-and-boot", "boot"],'))
ben("c12-bounds-equiv", ["C12"], (MPI, "(slot_hex.maxaddr() > address + size - 1)", "(slot_hex.maxaddr() >= address + size)"))
ben("c12-dict-policy", ["C12"], (MPI, '        if independent_updates:\n            independent_updates_bytes = b"\\02"\n        else:\n            independent_updates_bytes = b"\\01"', '        independent_updates_bytes = b"\\02" if independent_updates else b"\\01"'))
ben("c12-rename-local", ["C12"], (MPI, "merged_bin", "area_bytes", "all"))

# ------------------------------------------------------------------ C13 UUID derivations
brk("c13-desc-namespace-not-nested", ["C13"], (M, 'namespace = uuid.uuid5(uuid.NAMESPACE_DNS, uuid_obj["namespace"])', 'namespace = uuid.uuid5(uuid.NAMESPACE_URL, uuid_obj["namespace"])'))
brk("c13-desc-name-ns-swapped", ["C13"], (M, 'entry = uuid.uuid5(namespace, uuid_obj["name"]).bytes', 'entry = uuid.uuid5(namespace, uuid_obj["namespace"] if "namespace" in uuid_obj else uuid_obj["name"]).bytes'))
brk("c13-role-vid-flat", ["C13"], (IMG, "        cid = uuid.uuid5(vid, class_name)\n        self._assignments[cid.hex]", "        cid = uuid.uuid5(uuid.NAMESPACE_DNS, vendor_name + class_name)\n        self._assignments[cid.hex]"))
brk("c13-role-key-vid", ["C13"], (IMG, "self._assignments[cid.hex] = {", "self._assignments[vid.hex] = {"))
brk("c13-kconfig-class-from-root", ["C13"], (IMG, '                    "class_name": config[f"SB_CONFIG_SUIT_MPI_{manifest}_CLASS_NAME"],\n                    "role"', '                    "class_name": config["SB_CONFIG_SUIT_MPI_ROOT_CLASS_NAME"],\n                    "role"'))
brk("c13-kconfig-root-unmapped", ["C13"], (IMG, 'ManifestRole[f"APP_{manifest}" if manifest == "ROOT" else manifest]', 'ManifestRole[f"APP_{manifest}" if manifest == "ROOT_" else manifest]'))
brk("c13-kconfig-regex-no-digit", ["C13"], (IMG, "(?P<manifest>[A-Z1-9_]+)_VENDOR_NAME$", "(?P<manifest>[A-Z_]+)_VENDOR_NAME$"))
brk("c13-dup-check-or", ["C13"], (IMG, '                        item["vendor_name"] == config[f"SB_CONFIG_SUIT_MPI_{manifest}_VENDOR_NAME"]\n                        and item["class_name"]', '                        item["vendor_name"] == config[f"SB_CONFIG_SUIT_MPI_{manifest}_VENDOR_NAME"]\n                        and item["role"]'))
brk("c13-assign-swapped", ["C13"], (IMG, '            for entry in self._get_role_assignments_from_kconfig(kconfig):\n                self.assign_role(entry["vendor_name"], entry["class_name"], entry["role"])', '            for entry in self._get_role_assignments_from_kconfig(kconfig):\n                self.assign_role(entry["class_name"], entry["vendor_name"], entry["role"])'))
ben("c13-rename-locals", ["C13", "C12"], (MPI, "        vid = uuid.uuid5(uuid.NAMESPACE_DNS, vendor_name)\n        cid = uuid.uuid5(vid, class_name)", "        vendor_uuid = uuid.uuid5(uuid.NAMESPACE_DNS, vendor_name)\n        vid = vendor_uuid\n        cid = uuid.uuid5(vendor_uuid, class_name)"))

# ------------------------------------------------------------------ C16 update candidate info
brk("c16-big-endian", ["C16"], (IMG, 'return "<" + "IIII" + dfu_max_caches * "II"', 'return ">" + "IIII" + dfu_max_caches * "II"'))
brk("c16-native-order", ["C16"], (IMG, 'return "<" + "IIII" + dfu_max_caches * "II"', 'return "IIII" + dfu_max_caches * "II"'))
brk("c16-magic", ["C16"], (IMG, "UPDATE_MAGIC_VALUE_AVAILABLE = 0x55AA55AA", "UPDATE_MAGIC_VALUE_AVAILABLE = 0xAA55AA55"))
brk("c16-addr-size-swapped", ["C16"], (IMG, "            dfu_partition_address,  # SUIT envelope address\n            candidate_size,  # SUIT envelope size", "            candidate_size,  # SUIT envelope size\n            dfu_partition_address,  # SUIT envelope address"))
brk("c16-cache-count-plus-one", ["C16"], (IMG, "all_cache_values = dfu_max_caches * [0, 0]", "all_cache_values = (dfu_max_caches + 1) * [0, 0]"))
brk("c16-size-of-other-file", ["C16"], (IMG, "                os.path.getsize(input_file),\n", "                os.path.getsize(dfu_partition_output_file),\n"))
brk("c16-uci-at-partition", ["C16"], (IMG, "                dfu_partition_address, update_candidate_size, dfu_max_caches\n            ),\n            update_candidate_info_address,", "                dfu_partition_address, update_candidate_size, dfu_max_caches\n            ),\n            dfu_partition_address,"))
brk("c16-bin2hex-offset", ["C16"], (IMG, "if err := bin2hex(input_file, dfu_partition_output_file, dfu_partition_address):", "if err := bin2hex(input_file, dfu_partition_output_file, dfu_partition_address & 0xFFFF0000):"))
brk("c16-bin2hex-unchecked", ["C16"], (IMG, "        if err := bin2hex(input_file, dfu_partition_output_file, dfu_partition_address):\n            raise GeneratorError(f\"Failed to convert {input_file} to {dfu_partition_output_file}: {err}\")", "        bin2hex(input_file, dfu_partition_output_file, dfu_partition_address)"))
brk("c16-main-swap", ["C16"], (IMG, '            kwargs["update_candidate_info_address"],\n            kwargs["dfu_partition_address"],\n            kwargs["dfu_max_caches"],', '            kwargs["dfu_partition_address"],\n            kwargs["update_candidate_info_address"],\n            kwargs["dfu_max_caches"],'))
brk("c16-build-glue-swap", ["C16"], (BUILD, "            update_candidate_info_address=arguments.update_candidate_info_address,\n            dfu_partition_address=arguments.dfu_partition_address,", "            update_candidate_info_address=arguments.dfu_partition_address,\n            dfu_partition_address=arguments.update_candidate_info_address,"))
brk("c16-regions-2", ["C16"], (IMG, "            1,  # Nb of memory regions", "            2,  # Nb of memory regions"))
ben("c16-struct-pack", ["C16"], (IMG, "        uci = struct.Struct(ImageCreator._prepare_suit_storage_struct_format(dfu_max_caches))\n", "        uci_format = ImageCreator._prepare_suit_storage_struct_format(dfu_max_caches)\n"),
    (IMG, "        return uci.pack(*struct_values)", "        return struct.pack(uci_format, *struct_values)"))
ben("c16-size-local", ["C16"], (IMG, "            ImageCreator._create_suit_storage_file_for_update(\n                dfu_partition_address,\n                os.path.getsize(input_file),", "            envelope_size = os.path.getsize(input_file)\n            ImageCreator._create_suit_storage_file_for_update(\n                dfu_partition_address,\n                envelope_size,"))

# ------------------------------------------------------------------ C20 versions
brk("c20-rc-below-beta", ["C20"], (M, "            beta = -2\n            rc = -1", "            beta = -1\n            rc = -2"))
brk("c20-rc-zero", ["C20"], (M, "            rc = -1", "            rc = 0"))
brk("c20-extra-label", ["C20"], (M, "            rc = -1\n", "            rc = -1\n            dev = -4\n"))
brk("c20-no-dash-normalise", ["C20"], (M, 'for part in obj.replace("-", ".").split(".")]', 'for part in obj.split(".")]'))
brk("c20-label-error-unconverted", ["C20"], (M, "                except AttributeError:\n                    raise ValueError(f\"Unsupported prerelease type: {part}\")", "                except AttributeError:\n                    raise"))
brk("c20-label-lowercased-prefix", ["C20"], (M, "prerelease = getattr(PrereleaseType, part)", "prerelease = getattr(PrereleaseType, part[:2] == 'rc' and 'rc' or part)"))
brk("c20-minor-shift-8", ["C20"], (BUILD, '            + (int(version["VERSION_MINOR"]) << 16)\n            + (int(version["PATCHLEVEL"]) << 8)', '            + (int(version["VERSION_MINOR"]) << 8)\n            + (int(version["PATCHLEVEL"]) << 16)'))
brk("c20-patch-shift-4", ["C20"], (BUILD, '            + (int(version["PATCHLEVEL"]) << 8)\n        )\n        if "VERSION_TWEAK" in version:', '            + (int(version["PATCHLEVEL"]) << 4)\n        )\n        if "VERSION_TWEAK" in version:'))
brk("c20-scfw-minor-shift", ["C20"], (BUILD, '+ (int(version["SYSCTRL_VERSION_MINOR"]) << 16)', '+ (int(version["SYSCTRL_VERSION_MINOR"]) << 12)'))
brk("c20-regex-dev", ["C20"], (BUILD, 'extraversion_re = r"^(alpha|beta|rc)[\\.]{0,1}([0-9]+){0,1}$"', 'extraversion_re = r"^(alpha|beta|rc|dev)[\\.]{0,1}([0-9]+){0,1}$"'))
brk("c20-fallback-pre", ["C20"], (BUILD, '                default_version += "-alpha"', '                default_version += "-pre"'))
ben("c20-mult-instead-of-shift", ["C20"], (BUILD, '(int(version["VERSION_MAJOR"]) << 24)', '(int(version["VERSION_MAJOR"]) * 16777216)'))
ben("c20-enum-subscript", ["C20"], (M, "                    prerelease = getattr(PrereleaseType, part)\n                    return prerelease.value\n                except AttributeError:", "                    prerelease = PrereleaseType[part]\n                    return prerelease.value\n                except KeyError:"))

# ------------------------------------------------------------------ C06 / C14 encryption
brk("c06-header-gcm128-aad-stale", ["C06"], (ENC, "SuitIds.COSE_ALG.value: SuitCoseEncryptAlgorithms.COSE_ALG_AES_GCM_256.value,", "SuitIds.COSE_ALG.value: SuitCoseEncryptAlgorithms.COSE_ALG_AES_GCM_128.value,"))
brk("c06-aad-literal-byte", ["C06"], (ENC, "0x43, 0xA1, 0x01, 0x03, 0x40]", "0x43, 0xA1, 0x01, 0x03, 0x41]"))
brk("c06-aad-dropped-in-kms", ["C06"], (KMS, "ciphertext_response = aesgcm.encrypt(nonce, plaintext, aad)", "ciphertext_response = aesgcm.encrypt(nonce, plaintext, None)"))
brk("c06-tag-ct-swapped-in-kms", ["C06"], (KMS, "        ciphertext = ciphertext_response[:-16]\n        tag = ciphertext_response[-16:]", "        ciphertext = ciphertext_response[16:]\n        tag = ciphertext_response[:16]"))
brk("c06-parse-boundary", ["C06", "C14"], (ENC, "        init_vector = asset_bytes[:12]\n        tag = asset_bytes[12 : 12 + 16]", "        init_vector = asset_bytes[:16]\n        tag = asset_bytes[12 : 12 + 16]"))
brk("c06-asset-order", ["C06", "C14"], (ENC, "encrypted_asset = nonce + tag + ciphertext", "encrypted_asset = tag + nonce + ciphertext"))
brk("c06-cli-ct-then-tag", ["C06"], (ENCCMD, '    with open(os.path.join(kwargs["output_dir"], "encrypted_content.bin"), "wb") as file:\n        file.write(tag + encrypted_content)\n\n\ndef generate_info', '    with open(os.path.join(kwargs["output_dir"], "encrypted_content.bin"), "wb") as file:\n        file.write(encrypted_content + tag)\n\n\ndef generate_info'))
brk("c06-tag-96", ["C06"], (ENC, "Cose_Encrypt_Tagged = cbor2.CBORTag(96, Cose_Encrypt)", "Cose_Encrypt_Tagged = cbor2.CBORTag(16, Cose_Encrypt)"))
brk("c06-single-wrap", ["C06"], (ENC, "encryption_info = cbor2.dumps(cbor2.dumps(Cose_Encrypt_Tagged))", "encryption_info = cbor2.dumps(Cose_Encrypt_Tagged)"))
brk("c06-keyid-unwrapped", ["C06"], (ENC, "SuitIds.COSE_KEY_ID.value: cbor2.dumps(key_id),", "SuitIds.COSE_KEY_ID.value: key_id,"))
brk("c06-direct-code", ["C06"], (ENC, "            self.cose_kw_alg = SuitCoseEncryptAlgorithms.COSE_ALG_DIRECT.value", "            self.cose_kw_alg = SuitCoseEncryptAlgorithms.COSE_ALG_A128KW.value"))
brk("c06-digest-of-ciphertext", ["C06"], (ENC, "        digest, plaintext_len = digest_generator.generate_digest_size_for_plain_text(firmware)\n        encrypted_asset, encrypted_cek = self.generate_kms_artifacts(firmware, key_name, context)", "        encrypted_asset, encrypted_cek = self.generate_kms_artifacts(firmware, key_name, context)\n        digest, plaintext_len = digest_generator.generate_digest_size_for_plain_text(encrypted_asset)"))
brk("c06-text-mode-firmware", ["C06"], (ENCCMD, '    with open(kwargs["firmware"], "rb") as file:\n        plaintext = file.read()', '    with open(kwargs["firmware"], "rb") as file:\n        plaintext = file.read().rstrip(b"\\xff")'))
brk("c06-shake-len", ["C06"], (ENC, "SuitDigestAlgorithms.SHAKE256.value: hashes.SHAKE256(32),", "SuitDigestAlgorithms.SHAKE256.value: hashes.SHAKE256(64),"))
brk("c06-raw-double-deserialize", ["C06"], (SEC, "return super().from_cbor(super().deserialize_cbor(enc_info_bytes))", "return super().from_cbor(super().deserialize_cbor(super().deserialize_cbor(enc_info_bytes)))"))
brk("c06-size-file-digest", ["C06"], (ENCCMD, '    with open(os.path.join(kwargs["output_dir"], "plain_text_size.txt"), "w") as file:\n        file.write(str(plaintext_len))', '    with open(os.path.join(kwargs["output_dir"], "plain_text_size.txt"), "w") as file:\n        file.write(str(len(encrypted_content)))'))
brk("c14-const-nonce", ["C14"], (KMS, "        nonce = os.urandom(12)", "        nonce = bytes(12)"))
brk("c14-class-level-nonce", ["C14"], (KMS, 'class SuitKMS(SuitKMSBase):\n    """Implementation of the KMS."""\n', 'class SuitKMS(SuitKMSBase):\n    """Implementation of the KMS."""\n\n    _nonce = os.urandom(12)\n'),
    (KMS, "        nonce = os.urandom(12)", "        nonce = self._nonce"))
brk("c14-plaintext-derived", ["C14"], (KMS, "        nonce = os.urandom(12)", "        nonce = hashes.Hash(hashes.SHA256()).finalize()[:12] if plaintext else os.urandom(12)"))
brk("c14-nonce-8", ["C14"], (KMS, "        nonce = os.urandom(12)", "        nonce = os.urandom(8) + bytes(4)"))
brk("c14-default-arg", ["C14"], (KMS, "    def encrypt(self, plaintext: bytes, key_name: str, context: str, aad: bytes) -> tuple[bytes, bytes, bytes]:", "    def encrypt(self, plaintext: bytes, key_name: str, context: str, aad: bytes, nonce=os.urandom(12)) -> tuple[bytes, bytes, bytes]:"),
    (KMS, "        nonce = os.urandom(12)\n", ""))
brk("c14-cached-encrypt", ["C14"], (KMS, "import os\n", "import os\nimport functools\n"), (KMS, "    def encrypt(self, plaintext: bytes,", "    @functools.lru_cache(maxsize=None)\n    def encrypt(self, plaintext: bytes,"))
brk("c14-publish-other-nonce", ["C14", "C06"], (KMS, "        return nonce, tag, ciphertext", "        return os.urandom(12), tag, ciphertext"))
brk("c14-second-site-static-nonce", ["C14"], (ENC, "        encrypted_asset = nonce + tag + ciphertext\n", "        encrypted_asset = nonce + tag + ciphertext\n        if len(asset_plaintext) == 0:\n            from cryptography.hazmat.primitives.ciphers.aead import AESGCM\n            encrypted_asset = bytes(12) + AESGCM(bytes(32)).encrypt(bytes(12), b\"\", enc_structure_encoded)\n"))
ben("c14-secrets-local", ["C14", "C06"], (KMS, "        nonce = os.urandom(12)\n        ciphertext_response = aesgcm.encrypt(nonce, plaintext, aad)", "        iv = os.urandom(12)\n        nonce = iv\n        ciphertext_response = aesgcm.encrypt(iv, plaintext, aad)"))
ben("c06-aad-from-hex", ["C06"], (ENC, "        enc_structure_encoded = bytes(\n            [0x83, 0x67, 0x45, 0x6E, 0x63, 0x72, 0x79, 0x70, 0x74, 0x43, 0xA1, 0x01, 0x03, 0x40]\n        )", '        enc_structure_encoded = bytes.fromhex("8367456e637279707443a1010340")'))

# ------------------------------------------------------------------ C04 signing
brk("c04-context-string", ["C04"], (SIGN, 'data = ["Signature1", cbor2.dumps(protected), b"", cbor2.dumps(self.get_digest())]', 'data = ["Signature", cbor2.dumps(protected), b"", cbor2.dumps(self.get_digest())]'))
brk("c04-no-external-aad", ["C04"], (SIGN, 'data = ["Signature1", cbor2.dumps(protected), b"", cbor2.dumps(self.get_digest())]', 'data = ["Signature1", cbor2.dumps(protected), cbor2.dumps(self.get_digest())]'))
brk("c04-digest-unwrapped", ["C04"], (SIGN, 'data = ["Signature1", cbor2.dumps(protected), b"", cbor2.dumps(self.get_digest())]', 'data = ["Signature1", cbor2.dumps(protected), b"", self.get_digest()[1]]'))
brk("c04-keyid-plain", ["C04"], (SIGN, "SuitIds.COSE_KEY_ID.value: cbor2.dumps(self._key_id),", "SuitIds.COSE_KEY_ID.value: self._key_id,"))
brk("c04-tag-17", ["C04"], (SIGN, "auth_block = cbor2.CBORTag(18, data)", "auth_block = cbor2.CBORTag(17, data)"))
brk("c04-alg-table-es521", ["C04", "C08"], (SIGN, "COSE_ALG_ES_521 = -36", "COSE_ALG_ES_521 = -35"), )
brk("c04-width-bitlength", ["C04"], (KMS, '        return r.to_bytes(math.ceil(private_key.key_size / 8), byteorder="big") + s.to_bytes(', '        return r.to_bytes((r.bit_length() + 7) // 8, byteorder="big") + s.to_bytes('))
brk("c04-width-floor", ["C04"], (KMS, '        return r.to_bytes(math.ceil(private_key.key_size / 8), byteorder="big") + s.to_bytes(\n            math.ceil(private_key.key_size / 8), byteorder="big"', '        return r.to_bytes(private_key.key_size // 8 + 1, byteorder="big") + s.to_bytes(\n            private_key.key_size // 8 + 1, byteorder="big"'))
brk("c04-hash-521-sha384", ["C04"], (KMS, "521: hashes.SHA512()}", "521: hashes.SHA384()}"))
brk("c04-s-then-r", ["C04"], (KMS, "        r, s = decode_dss_signature(dss_signature)", "        s, r = decode_dss_signature(dss_signature)"))
brk("c04-write-manifest-key", ["C04"], (SIGN, "        auth_block.append(cbor2.dumps(new_auth))\n", "        auth_block.append(cbor2.dumps(new_auth))\n        self.envelope.value[SuitIds.SUIT_MANIFEST.value] = bytes(self.envelope.value[SuitIds.SUIT_MANIFEST.value])\n"))
brk("c04-unprotected-header-alg", ["C04"], (SIGN, "data = [cbor2.dumps(protected), unprotected if unprotected is not None else {}, None, signature]", "data = [cbor2.dumps(protected), unprotected if unprotected is not None else protected, None, signature]"))
brk("c04-sign-other-header", ["C04"], (SIGN, "        self.add_signature(signature, protected=protected)", "        protected[SuitIds.COSE_KEY_ID.value] = cbor2.dumps(self._key_id & 0xFFFF)\n        self.add_signature(signature, protected=protected)"))
brk("c04-prehash-sha256", ["C04"], (KMS, "prehashed_message = SHA512.new(input_data)", "prehashed_message = SHA512.new(input_data[:64])"))
brk("c04-unfix-frozen", ["C04"], (SIGN, "        self.envelope = cbor2.CBORTag(input_envelope.tag, dict(input_envelope.value))", "        self.envelope = input_envelope"),
    (SIGNCMD, "    return cbor2.CBORTag(envelope.tag, dict(envelope.value))", "    return envelope"))
ben("c04-width-int-arith", ["C04"], (KMS, '        return r.to_bytes(math.ceil(private_key.key_size / 8), byteorder="big") + s.to_bytes(\n            math.ceil(private_key.key_size / 8), byteorder="big"', '        return r.to_bytes((private_key.key_size + 7) // 8, byteorder="big") + s.to_bytes(\n            (private_key.key_size + 7) // 8, byteorder="big"'))
ben("c04-inline-block", ["C04"], (SIGN, "        new_auth = self.create_authentication_block(protected, unprotected, signature)\n", "        new_auth = cbor2.CBORTag(18, [cbor2.dumps(protected), unprotected if unprotected is not None else {}, None, signature])\n"))

# ------------------------------------------------------------------ C10 cache
brk("c10-header-59-4bytes", ["C10"], (CACHE, 'slot_data += bytes([0x5A]) + len(data).to_bytes(4, byteorder="big") + data', 'slot_data += bytes([0x59]) + len(data).to_bytes(4, byteorder="big") + data'))
brk("c10-len-2bytes-when-small", ["C10"], (CACHE, 'slot_data += bytes([0x5A]) + len(data).to_bytes(4, byteorder="big") + data', 'slot_data += (bytes([0x59]) + len(data).to_bytes(2, byteorder="big") if len(data) < 65536 else bytes([0x5A]) + len(data).to_bytes(4, byteorder="big")) + data'))
brk("c10-little-endian", ["C10"], (CACHE, 'len(data).to_bytes(4, byteorder="big") + data', 'len(data).to_bytes(4, byteorder="little") + data'))
brk("c10-bf-every-slot", ["C10"], (CACHE, "            slot_data = bytes([0xBF])\n            self.first_slot = False", "            slot_data = bytes([0xBF])"))
brk("c10-no-dup-check", ["C10"], (CACHE, "        if uri in self.uris:\n            raise ValueError(f\"URI {uri} already exists in the cache!\")\n", ""))
brk("c10-dup-check-after", ["C10"], (CACHE, "        if uri in self.uris:\n            raise ValueError(f\"URI {uri} already exists in the cache!\")\n        self.uris.append(uri)\n", "        self.uris.append(uri)\n        if self.uris.count(uri) > 2:\n            raise ValueError(f\"URI {uri} already exists in the cache!\")\n"))
brk("c10-bump-dropped", ["C10"], (CACHE, "        if padding_size == 1:\n            padding_size += self.eb_size\n            rounded_up_size += self.eb_size\n", ""))
brk("c10-bump-unpaired", ["C10"], (CACHE, "            padding_size += self.eb_size\n            rounded_up_size += self.eb_size\n", "            padding_size += self.eb_size\n"))
brk("c10-short-limit-24", ["C10"], (CACHE, "        if padding_size <= 23:\n            header_len = 2", "        if padding_size <= 26:\n            header_len = 2"))
brk("c10-header-len-3", ["C10"], (CACHE, "            header_len = 4\n            padded_data += bytes([0x59])", "            header_len = 3\n            padded_data += bytes([0x59])"))
brk("c10-pad-ff", ["C10"], (CACHE, 'return padded_data.ljust(rounded_up_size, b"\\x00")', 'return padded_data.ljust(rounded_up_size, b"\\xff")'))
brk("c10-pad-key-bstr", ["C10"], (CACHE, "        padded_data += bytes([0x60])", "        padded_data += bytes([0x40])"))
brk("c10-no-close", ["C10"], (CACHE, "        self.cache_data += bytes([0xFF])\n", ""))
brk("c10-merge-skips-short", ["C10"], (CACHE, "            if len(k) == 0:\n                continue  # Empty key means padding - skip", "            if len(k) <= 1:\n                continue  # Empty key means padding - skip"))
brk("c10-merge-wrong-value", ["C10"], (CACHE, "            self.add_cache_slot(k, cache_dict[k])", "            self.add_cache_slot(k, cache_dict[k][:0xFFFF])"))
ben("c10-int-roundup", ["C10"], (CACHE, "rounded_up_size = math.ceil(len(data) / self.eb_size) * self.eb_size", "rounded_up_size = ((len(data) + self.eb_size - 1) // self.eb_size) * self.eb_size"))
ben("c10-rename", ["C10"], (CACHE, "padded_data", "out", "all"))

# ------------------------------------------------------------------ C11 extraction
brk("c11-get-not-pop", ["C11"], (CACHE, "cache.add_cache_slot(payload, envelope.value.pop(payload))", "cache.add_cache_slot(payload, envelope.value.get(payload))"))
brk("c11-match-not-fullmatch", ["C11"], (CACHE, "payloads_to_extract = [k for k in integrated if re.fullmatch(omit_payload_regex, k) is None]", "payloads_to_extract = [k for k in integrated if re.match(omit_payload_regex, k) is None]"))
brk("c11-omit-inverted", ["C11"], (CACHE, "payloads_to_extract = [k for k in integrated if re.fullmatch(omit_payload_regex, k) is None]", "payloads_to_extract = [k for k in integrated if re.fullmatch(omit_payload_regex, k) is not None]"))
brk("c11-dep-not-removed", ["C11"], (CACHE, "            for dep in integrated_dependencies:\n                integrated.remove(dep)\n", ""))
brk("c11-dep-not-stored-back", ["C11"], (CACHE, "            envelope.value[dependency] = new_dependency_data\n", ""))
brk("c11-dep-wrong-patterns", ["C11"], (CACHE, "                    cache, envelope.value[dependency], omit_payload_regex, dependency_regex\n", "                    cache, envelope.value[dependency], omit_payload_regex, None\n"))
brk("c11-slot-key-lower", ["C11"], (CACHE, "cache.add_cache_slot(payload, envelope.value.pop(payload))", "cache.add_cache_slot(payload.lower(), envelope.value.pop(payload))"))
brk("c11-drop-auth-when-empty", ["C11"], (CACHE, "        return cbor2.dumps(envelope)\n\n    def fill_cache_from_envelope(", "        if not payloads_to_extract:\n            envelope.value.pop(23, None)\n        return cbor2.dumps(envelope)\n\n    def fill_cache_from_envelope("))
brk("c11-bytes-keys-too", ["C11"], (CACHE, "integrated = [k for k in envelope.value.keys() if isinstance(k, str)]", "integrated = [k for k in envelope.value.keys() if isinstance(k, (str, bytes))]"))
brk("c11-extract-replace-other-name", ["C11"], (PEX, "            envelope.value[payload_name] = fh.read()", "            envelope.value[payload_name.strip()] = fh.read()"))
brk("c11-extract-truncated", ["C11"], (PEX, "            fh.write(extracted_payload)", "            fh.write(extracted_payload[:65536])"))
brk("c11-extract-get", ["C11"], (PEX, "extracted_payload = envelope.value.pop(payload_name, None)", "extracted_payload = envelope.value.get(payload_name, None)"))
brk("c11-extract-text-replace", ["C11"], (PEX, '        with open(payload_replace_path, "rb") as fh:\n            envelope.value[payload_name] = fh.read()', '        with open(payload_replace_path, "r") as fh:\n            envelope.value[payload_name] = fh.read().encode()'))
brk("c11-unfix-frozen", ["C11"], (PEX, "    envelope = cbor2.CBORTag(envelope.tag, dict(envelope.value))\n", ""))
brk("c11-main-swap", ["C11"], (CACHE, '            kwargs["omit_payload_regex"],\n            kwargs["dependency_regex"],', '            kwargs["dependency_regex"],\n            kwargs["omit_payload_regex"],'))
ben("c11-is-not-none", ["C11"], (CACHE, "integrated_dependencies = [k for k in integrated if not re.fullmatch(dependency_regex, k) is None]", "integrated_dependencies = [k for k in integrated if re.fullmatch(dependency_regex, k) is not None]"))

# ------------------------------------------------------------------ C09 signing policy
brk("c09-skip-still-signs", ["C09"], (SIGN, "        if self._skip_signing:\n            return self.envelope\n", ""))
brk("c09-skip-checked-late", ["C09"], (SIGN, "        if self._skip_signing:\n            return self.envelope\n        protected = {", "        protected = {"),
    (SIGN, "        self.add_signature(signature, protected=protected)\n        return self.envelope", "        if self._skip_signing:\n            return self.envelope\n        self.add_signature(signature, protected=protected)\n        return self.envelope"))
brk("c09-flag-not-reset", ["C09"], (SIGN, "        self._skip_signing = False\n", ""))
brk("c09-remove-old-not-stored", ["C09"], (SIGN, "                    auth_block.remove(auth)\n                    self.envelope.value[SuitIds.SUIT_AUTHENTICATION_WRAPPER.value] = cbor2.dumps(auth_block)", "                    auth_block.remove(auth)"))
brk("c09-remove-old-sets-skip", ["C09"], (SIGN, "                    auth_block.remove(auth)\n", "                    auth_block.remove(auth)\n                    self._skip_signing = len(auth_block) > 2\n"))
brk("c09-error-after-remove", ["C09"], (SIGN, '                if action == SignatureAlreadyPresentActions.ERROR:\n                    raise SignerError("The envelope has already been signed and already-signed-action is set to error.")', '                if action == SignatureAlreadyPresentActions.ERROR:\n                    self.envelope.value[SuitIds.SUIT_AUTHENTICATION_WRAPPER.value] = cbor2.dumps(auth_block[:1])\n                    raise SignerError("The envelope has already been signed and already-signed-action is set to error.")'))
brk("c09-detect-tag-98", ["C09"], (SIGN, "auth_deserialized.tag == 18:", "auth_deserialized.tag == 98:"))
brk("c09-key-check-prefix", ["C09"], (KMS, 'return f"es-{private_key.key_size}" == algorithm', 'return algorithm.startswith("es-")'))
brk("c09-key-check-ed-any", ["C09"], (KMS, 'return "eddsa" == algorithm or "hash-eddsa" == algorithm', 'return "eddsa" in algorithm or algorithm == "es-256"'))
brk("c09-key-check-not-enforced", ["C09"], (KMS, "        if not self._verify_signing_key_type(private_key, algorithm):\n            raise ValueError(f\"Key {key_file_name} is not compatible with algorithm {algorithm}\")\n", "        self._verify_signing_key_type(private_key, algorithm)\n"))
brk("c09-child-gets-parent-key", ["C09"], (SIGNCMD, "            self.key_name,\n            self.key_id,\n            self.alg,", "            self.key_name,\n            self.key_id if self.dependencies else 0,\n            self.alg,"))
brk("c09-child-config-of-parent", ["C09"], (SIGNCMD, '                        envelope_json["dependencies"][dep],\n', '                        envelope_json,\n'))
brk("c09-store-under-other-name", ["C09"], (SIGNCMD, "self.envelope.value[dep.envelope_name] = cbor2.dumps(dep.recursive_sign())", "self.envelope.value[dep.envelope_name.lstrip('#')] = cbor2.dumps(dep.recursive_sign())"))
brk("c09-sign-before-deps", ["C09"], (SIGNCMD, "        for dep in self.dependencies:\n            self.envelope.value[dep.envelope_name] = cbor2.dumps(dep.recursive_sign())\n        if not self.omit_signing:\n            self._sign()\n", "        if not self.omit_signing:\n            self._sign()\n        for dep in self.dependencies:\n            self.envelope.value[dep.envelope_name] = cbor2.dumps(dep.recursive_sign())\n"))
brk("c09-omit-skips-deps", ["C09"], (SIGNCMD, "        for dep in self.dependencies:\n            self.envelope.value[dep.envelope_name] = cbor2.dumps(dep.recursive_sign())\n        if not self.omit_signing:\n            self._sign()\n", "        if not self.omit_signing:\n            for dep in self.dependencies:\n                self.envelope.value[dep.envelope_name] = cbor2.dumps(dep.recursive_sign())\n            self._sign()\n"))
brk("c09-dep-type-unchecked", ["C09"], (SIGNCMD, "        if not isinstance(dependency_envelope, cbor2.CBORTag):\n            raise ValueError(f\"Dependency {dependency_name} in {self.envelope_name} is not a valid envelope.\")\n", ""))
brk("c09-unfix-key-read", ["C09"], (SIGNCMD, '        self.key_name = envelope_json.get("key-name")', '        self.key_name = envelope_json["key-name"]'))
brk("c09-main-writes-first", ["C09"], (SIGNCMD, '    envelope = load_envelope(kwargs["input_envelope"])\n', '    envelope = load_envelope(kwargs["input_envelope"])\n    save_envelope(kwargs["output_envelope"], envelope)\n'))
brk("c09-main-swallows", ["C09"], (SIGNCMD, '        envelope = single_level_sign(envelope, **kwargs)\n', '        try:\n            envelope = single_level_sign(envelope, **kwargs)\n        except Exception:\n            pass\n'))
ben("c09-key-read-guarded", ["C09"], (SIGNCMD, '        self.key_name = envelope_json.get("key-name")', '        self.key_name = envelope_json["key-name"] if "key-name" in envelope_json else None'))

# ------------------------------------------------------------------ C07 boot storage
brk("c07-offset-shift", ["C07"], (IMG, '            "role": ManifestRole.APP_LOCAL_3,\n            "offset": 8192 + 1024 * 7,', '            "role": ManifestRole.APP_LOCAL_3,\n            "offset": 8192 + 1024 * 8,'))
brk("c07-overlap", ["C07"], (IMG, '            "role": ManifestRole.RAD_LOCAL_2,\n            "offset": 4096 + 1024 * 3,\n            "size": 1024,', '            "role": ManifestRole.RAD_LOCAL_2,\n            "offset": 4096 + 1024 * 3,\n            "size": 2048,'))
brk("c07-domain-wrong", ["C07"], (IMG, '            "role": ManifestRole.RAD_RECOVERY,\n            "offset": 8192 + 1024 * 1,\n            "size": 1024,\n            "domain": ManifestDomain.RADIO,', '            "role": ManifestRole.RAD_RECOVERY,\n            "offset": 8192 + 1024 * 1,\n            "size": 1024,\n            "domain": ManifestDomain.APPLICATION,'))
brk("c07-dup-role-in-layout", ["C07"], (IMG, '            "role": ManifestRole.SEC_SYSCTRL,\n            "offset": 3072,\n            "size": 1024,\n            "domain": ManifestDomain.SECURE,\n        },\n        {\n            "role": ManifestRole.RAD_RECOVERY,\n            "offset": 4096', '            "role": ManifestRole.SEC_SDFW,\n            "offset": 3072,\n            "size": 1024,\n            "domain": ManifestDomain.SECURE,\n        },\n        {\n            "role": ManifestRole.RAD_RECOVERY,\n            "offset": 4096'))
brk("c07-record-version-key", ["C07"], (IMG, "    ENVELOPE_SLOT_CLASS_ID_OFFSET_KEY = 1\n    ENVELOPE_SLOT_ENVELOPE_BSTR_KEY = 2", "    ENVELOPE_SLOT_CLASS_ID_OFFSET_KEY = 2\n    ENVELOPE_SLOT_ENVELOPE_BSTR_KEY = 1"))
brk("c07-pad-zero", ["C07"], (IMG, 'envelope_bytes = self._envelopes[role].ljust(max_size, b"\\xff")', 'envelope_bytes = self._envelopes[role].ljust(max_size, b"\\x00")'))
brk("c07-offset-prefix-15", ["C07"], (IMG, 'class_id_offset = component_id_offset + len(cbor_dumps([cbor_dumps("INSTLD_MFST"), b"#"]))', 'class_id_offset = component_id_offset + len(cbor_dumps([cbor_dumps("INSTLD_MFST"), b""]))'))
brk("c07-size-check-dropped", ["C07"], (IMG, "        if slot[1] < len(envelope_bytes):\n            raise GeneratorError(\n                f\"Unable to fit manifest with class id {class_id.hex()} ({len(envelope_bytes)} > {slot[1]})\"\n            )\n", ""))
brk("c07-size-check-off-by-one", ["C07"], (IMG, "        if slot[1] < len(envelope_bytes):", "        if slot[1] + 1 < len(envelope_bytes):"))
brk("c07-dup-overwrites", ["C07"], (IMG, "        if role in self._envelopes.keys():\n            raise GeneratorError(f\"Manifest with role {role} already added\")\n", ""))
brk("c07-commit-before-size-check", ["C07"], (IMG, "        if slot[1] < len(envelope_bytes):", "        self._envelopes[role] = envelope_bytes\n        if slot[1] < len(envelope_bytes):"))
brk("c07-write-inside-add-loop", ["C07"], (IMG, "        for envelope in envelopes:\n            storage.add_envelope(envelope)\n\n        for domain in ManifestDomain:\n            ImageCreator._create_single_domain_storage_file_for_boot(\n                storage,\n                domain,\n                dir_name,\n            )", "        for envelope in envelopes:\n            storage.add_envelope(envelope)\n            for domain in ManifestDomain:\n                ImageCreator._create_single_domain_storage_file_for_boot(\n                    storage,\n                    domain,\n                    dir_name,\n                )"))
brk("c07-domain-filter-role", ["C07"], (IMG, "            if storage_domain is not None and storage_domain != domain:\n                continue", "            if storage_domain is not None and storage_domain.value != (role.value & 0x30):\n                continue"))
brk("c07-sever-keeps-text", ["C07"], (TOPENV, '            "suit-text",\n', ''))
brk("c07-unfix-legacy", ["C07"], (TOPENV, '            "suit-install-legacy",\n', ''))
brk("c07-classid-from-other-bytes", ["C07"], (IMG, "class_id = severed_envelope[class_id_offset : class_id_offset + 16]", "class_id = manifest_cbor[class_id_offset - component_id_offset + 1 : class_id_offset - component_id_offset + 17]"))
brk("c07-soc-swapped", ["C07"], (IMG, '        elif soc == "nrf9280":\n            storage = EnvelopeStorageNrf9280(storage_address, kconfig=config_file)', '        elif soc == "nrf9280":\n            storage = EnvelopeStorageNrf54h20(storage_address, kconfig=config_file)'))
ben("c07-reorder-layout", ["C07"], (IMG, '        {\n            "role": ManifestRole.SEC_SDFW,\n            "offset": 2048,\n            "size": 1024,\n            "domain": ManifestDomain.SECURE,\n        },\n        {\n            "role": ManifestRole.SEC_SYSCTRL,\n            "offset": 3072,\n            "size": 1024,\n            "domain": ManifestDomain.SECURE,\n        },\n        {\n            "role": ManifestRole.RAD_RECOVERY,\n            "offset": 4096 + 1024 * 1,', '        {\n            "role": ManifestRole.SEC_SYSCTRL,\n            "offset": 3072,\n            "size": 1024,\n            "domain": ManifestDomain.SECURE,\n        },\n        {\n            "role": ManifestRole.SEC_SDFW,\n            "offset": 2048,\n            "size": 1024,\n            "domain": ManifestDomain.SECURE,\n        },\n        {\n            "role": ManifestRole.RAD_RECOVERY,\n            "offset": 4096 + 1024 * 1,'))
ben("c07-size-check-flipped", ["C07"], (IMG, "        if slot[1] < len(envelope_bytes):", "        if len(envelope_bytes) > slot[1]:"))

# ------------------------------------------------------------------ C01 digests
brk("c01-prepare-skips-severable", ["C01"], (IO, "        suit_obj = SuitEnvelopeTagged.from_obj(data)\n        suit_obj.update_severable_digests()\n        suit_obj.update_digest()", "        suit_obj = SuitEnvelopeTagged.from_obj(data)\n        suit_obj.update_digest()"))
brk("c01-prepare-order-swapped", ["C01"], (IO, "        suit_obj.update_severable_digests()\n        suit_obj.update_digest()\n        return suit_obj.to_cbor()", "        suit_obj.update_digest()\n        suit_obj.update_severable_digests()\n        return suit_obj.to_cbor()"))
brk("c01-subenvelope-no-digest", ["C01"], (ENV, "            suit_obj.update_severable_digests()\n            suit_obj.update_digest()\n            # TODO", "            suit_obj.update_severable_digests()\n            # TODO"))
brk("c01-digestext-conditional-refresh", ["C01"], (SEC, "                sub_envelope.update_severable_digests()\n                sub_envelope.update_digest()", "                if isinstance(digest_dict[\"envelope\"], dict):\n                    sub_envelope.update_severable_digests()\n                    sub_envelope.update_digest()"))
brk("c01-hash-inner-manifest", ["C01"], (ENV, "        manifest = self.get_manifest().to_cbor()\n", "        manifest = self.deserialize_cbor(self.get_manifest().to_cbor())\n"))
brk("c01-text-dropped-from-list", ["C01"], (ENV, "        severable_elements = [\n            suit_text,\n", "        severable_elements = [\n"))
brk("c01-alg-from-wrapper", ["C01"], (ENV, "                alg = (\n                    self.SuitEnvelopeTagged.value.SuitEnvelope[suit_manifest]\n                    .SuitManifest[severable_element]\n                    .value.SuitDigest.SuitDigestRaw[0]\n                    .value\n                )", "                alg = (\n                    self.SuitEnvelopeTagged.value.SuitEnvelope[suit_authentication_wrapper]\n                    .SuitAuthentication[0]\n                    .SuitDigest.SuitDigestRaw[0]\n                    .value\n                )"))
brk("c01-hash-manifest-copy-of-member", ["C01"], (ENV, "                    object_data = self.SuitEnvelopeTagged.value.SuitEnvelope[severable_element].to_cbor()", "                    object_data = self.SuitEnvelopeTagged.value.SuitEnvelope[severable_element].value.to_cbor() if False else self.SuitEnvelopeTagged.value.SuitEnvelope[suit_install].to_cbor()"))
brk("c01-keep-supplied-digest", ["C01"], (ENV, "                hash_func = SuitHash(alg)\n                self.SuitEnvelopeTagged", "                hash_func = SuitHash(alg)\n                if self.SuitEnvelopeTagged.value.SuitEnvelope[suit_manifest].SuitManifest[severable_element].value.SuitDigest.SuitDigestRaw[1].value:\n                    continue\n                self.SuitEnvelopeTagged"))
brk("c01-shake128-32", ["C01"], (SEC, '"cose-alg-shake128": hashes.SHAKE128(16),', '"cose-alg-shake128": hashes.SHAKE128(32),'))
brk("c01-sha384-is-512", ["C01"], (SEC, '"cose-alg-sha-384": hashes.SHA384(),', '"cose-alg-sha-384": hashes.SHA512(),'))
brk("c01-hash-strips", ["C01"], (SEC, "        func.update(bstr)\n        return func.finalize().hex()", "        func.update(bstr[1:] if len(bstr) > 65536 else bstr)\n        return func.finalize().hex()"))
brk("c01-envelope-member-unwrapped", ["C01", "C02"], (ENV, "            suit_text: cbstr(SuitTextMap),\n            suit_integrated_payloads: SuitIntegratedPayloadMap,\n            suit_integrated_dependencies: SuitIntegratedPayloadMap,\n        },\n        embedded=[suit_integrated_payloads],\n    )\n\n\nclass SuitBasic", "            suit_text: SuitTextMap,\n            suit_integrated_payloads: SuitIntegratedPayloadMap,\n            suit_integrated_dependencies: SuitIntegratedPayloadMap,\n        },\n        embedded=[suit_integrated_payloads],\n    )\n\n\nclass SuitBasic"))
brk("c01-digest-stored-pos0", ["C01"], (ENV, "        self.value.value.value[suit_authentication_wrapper].SuitAuthentication[0].SuitDigest.SuitDigestRaw[\n            1\n        ].SuitDigestBytes = self.get_manifest_digest(alg)", "        self.value.value.value[suit_authentication_wrapper].SuitAuthentication[0].SuitDigest.SuitDigestRaw[\n            1\n        ].SuitDigestBytes = self.get_manifest_digest(\"cose-alg-sha-256\")"))
ben("c01-helper-extracted", ["C01"], (IO, "        suit_obj = SuitEnvelopeTagged.from_obj(data)\n        suit_obj.update_severable_digests()\n        suit_obj.update_digest()\n        return suit_obj.to_cbor()", "        suit_obj = SuitEnvelopeTagged.from_obj(data)\n        suit_obj.update_severable_digests()\n        suit_obj.update_digest()\n        result = suit_obj.to_cbor()\n        return result"))
ben("c01-list-reordered", ["C01"], (ENV, "            suit_text,\n            suit_dependency_resolution,\n            suit_payload_fetch,", "            suit_payload_fetch,\n            suit_dependency_resolution,\n            suit_text,"))

# ------------------------------------------------------------------ C05 file provenance
brk("c05-digest-text-mode", ["C05"], (SEC, '                with open(digest_dict["file"], "rb") as fd:\n                    obj[suit_digest_bytes.name] = hfunc.hash(fd.read())', '                with open(digest_dict["file"], "r") as fd:\n                    obj[suit_digest_bytes.name] = hfunc.hash(fd.read().encode())'))
brk("c05-digest-read-limit", ["C05"], (SEC, "obj[suit_digest_bytes.name] = hfunc.hash(fd.read())", "obj[suit_digest_bytes.name] = hfunc.hash(fd.read(1 << 24))"))
brk("c05-digest-fixed-alg", ["C05"], (SEC, "hfunc = SuitHash(obj[suit_digest_algorithm_id.name])", 'hfunc = SuitHash("cose-alg-sha-256")'))
brk("c05-envelope-digest-child-alg", ["C05"], (SEC, "obj[suit_digest_bytes.name] = sub_envelope.get_manifest_digest(obj[suit_digest_algorithm_id.name]).hex()", 'obj[suit_digest_bytes.name] = sub_envelope.get_digest().value.SuitDigestRaw[1].value.hex()'))
brk("c05-file-direct-strip", ["C05"], (SEC, "obj[suit_digest_bytes.name] = fd.read().hex()", "obj[suit_digest_bytes.name] = fd.read().strip().hex()"))
brk("c05-size-of-other-key", ["C05"], (M, 'return super().from_obj(getsize(obj["file"]))', 'return super().from_obj(getsize(obj.get("file_direct", obj["file"])))'))
brk("c05-size-envelope-minus", ["C05"], (M, "return super().from_obj(len(binary_data))", "return super().from_obj(len(binary_data) & 0xFFFFFF)"))
brk("c05-payload-file-text", ["C05"], (PAY, '                with open(v, "rb") as fh:\n                    data = fh.read().hex().upper()', '                with open(v, "r") as fh:\n                    data = fh.read().encode().hex().upper()'))
brk("c05-payload-file-rstrip", ["C05"], (PAY, "data = fh.read().hex().upper()", "data = fh.read().rstrip(b\"\\n\").hex().upper()"))
brk("c05-subenvelope-path-not-refreshed-but-reencoded", ["C05"], (ENV, '            with open(obj, "rb") as fh:\n                return fh.read()', '            with open(obj, "rb") as fh:\n                return cls.from_cbor(fh.read()).to_cbor()'))
brk("c05-inline-no-refresh", ["C05", "C01"], (ENV, "            suit_obj = cls.from_obj(obj)\n            suit_obj.update_severable_digests()\n            suit_obj.update_digest()", "            suit_obj = cls.from_obj(obj)\n            suit_obj.update_digest()"))
brk("c05-raw-upper-slice", ["C05"], (SEC, 'obj[suit_digest_bytes.name] = digest_dict["raw"]', 'obj[suit_digest_bytes.name] = digest_dict["raw"][:64]'))
ben("c05-read-bytes-idiom", ["C05"], (SEC, '                with open(digest_dict["file_direct"], "rb") as fd:\n                    obj[suit_digest_bytes.name] = fd.read().hex()', '                fd = open(digest_dict["file_direct"], "rb")\n                obj[suit_digest_bytes.name] = fd.read().hex()'))

# ------------------------------------------------------------------ C15 keys / convert
brk("c15-unfix-width", ["C15"], (CONV, "            x_byte_length = (public_key_numbers.curve.key_size + 7) // 8", "            x_byte_length = (public_key_numbers.x.bit_length() + 7) // 8"))
brk("c15-width-floor", ["C15"], (CONV, "            x_byte_length = (public_key_numbers.curve.key_size + 7) // 8\n            y_byte_length = (public_key_numbers.curve.key_size + 7) // 8", "            x_byte_length = public_key_numbers.curve.key_size // 8\n            y_byte_length = public_key_numbers.curve.key_size // 8"))
brk("c15-y-then-x", ["C15"], (CONV, "            public_key_bytes = x_bytes + y_bytes", "            public_key_bytes = y_bytes + x_bytes"))
brk("c15-little-endian", ["C15"], (CONV, 'y_bytes = public_key_numbers.y.to_bytes(length=y_byte_length, byteorder="big")', 'y_bytes = public_key_numbers.y.to_bytes(length=y_byte_length, byteorder="little")'))
brk("c15-columns-affect-data", ["C15"], (CONV, "        return public_key_bytes\n", "        return public_key_bytes[: len(public_key_bytes) // self._columns_count * self._columns_count] if self._columns_count > 16 else public_key_bytes\n"))
brk("c15-row-split-overlap", ["C15"], (CONV, "return [data[i : i + self._columns_count] for i in range(0, len(data), self._columns_count)]", "return [data[i : i + self._columns_count] for i in range(0, len(data) - 1, self._columns_count)]"))
brk("c15-trailing-strip-3", ["C15"], (CONV, "        text = text[:-2]\n", "        text = text[:-3]\n"))
brk("c15-length-other-name", ["C15"], (CONV, 'right_hand_side += f"sizeof({self._array_name});"', 'right_hand_side += f"sizeof({KeyConverter.default_array_name});"'))
brk("c15-unfix-instance", ["C15"], (KEYS, "return ec.generate_private_key(KeyGenerator.supported_key_types[type]())", "return ec.generate_private_key(KeyGenerator.supported_key_types[type])"))
brk("c15-curve-table-swapped", ["C15"], (KEYS, '"secp384r1": ec.SECP384R1,', '"secp384r1": ec.SECP256R1,'))
brk("c15-public-of-new-key", ["C15"], (KEYS, "        public_key = private_key.public_key()\n", "        public_key = self.generate_private_key(key_type).public_key()\n"))
brk("c15-valueerror-not-converted", ["C15"], (KEYS, '        except ValueError as error:\n            raise GeneratorError(f"Invalid key generator parameters combination: {error}") from error\n', ''))
brk("c15-pub-priv-names-swapped", ["C15"], (KEYS, '        self._write(private, f"{file_name_prefix}_priv.{encoding}")\n        self._write(public, f"{file_name_prefix}_pub.{encoding}")', '        self._write(public, f"{file_name_prefix}_priv.{encoding}")\n        self._write(private, f"{file_name_prefix}_pub.{encoding}")'))
brk("c15-main-swap", ["C15"], (CONV, "        array_type,\n        array_name,\n        length_type,\n        length_name,\n        columns_count,\n        header_file,", "        array_type,\n        length_name,\n        length_type,\n        array_name,\n        columns_count,\n        header_file,"))
ben("c15-width-ceil", ["C15"], (CONV, "            x_byte_length = (public_key_numbers.curve.key_size + 7) // 8\n            y_byte_length = (public_key_numbers.curve.key_size + 7) // 8", "            x_byte_length = -(-public_key_numbers.curve.key_size // 8)\n            y_byte_length = x_byte_length"))

# ------------------------------------------------------------------ C17 parser error discipline
brk("c17-unfix-embedded", ["C17"], (C, "                if not cls._metadata.embedded:\n                    raise ValueError(f\"Unknown parameter: {k}\")\n", ""))
brk("c17-unfix-bitfield", ["C17"], (C, "        if not isinstance(bitval, int):\n            raise ValueError(f\"Unable to create bitfield from: {bitval}\")\n", ""))
brk("c17-unfix-tuple-index", ["C17"], (C, "                if index >= len(value_list):\n                    raise ValueError(f\"Incomplete list. Missing: {key}\")\n", ""))
brk("c17-unfix-signature", ["C17"], (SEC, "    def from_cbor(cls, cbstr: bytes) -> dict:\n        \"\"\"Restore SUIT representation from passed CBOR string.\"\"\"\n        raise ValueError(\"Encryption info should be created", "    def from_cbor(self) -> dict:\n        \"\"\"Restore SUIT representation from passed CBOR string.\"\"\"\n        raise ValueError(\"Encryption info should be created"))
brk("c17-kv-no-dict-check", ["C17"], (C, "        kv_dict = cls.deserialize_cbor(cbstr)\n        if not isinstance(kv_dict, dict):\n            raise ValueError(f\"Expected key-value storage, received: {kv_dict}\")\n        for k, v in kv_dict.items():\n            if not (child", "        kv_dict = cls.deserialize_cbor(cbstr)\n        for k, v in kv_dict.items():\n            if not (child"))
brk("c17-list-no-list-check", ["C17"], (C, "        if not isinstance(values, list):\n            raise ValueError(f\"Unable to construct list from: {values}\")\n", ""))
brk("c17-tag-no-hasattr", ["C17"], (C, '        if not hasattr(cbor, "tag") or cls._metadata.tag.value != cbor.tag:', '        if cls._metadata.tag.value != cbor.tag:'))
brk("c17-kvtuple-index", ["C17"], (C, "        k, v = cbor\n", "        k, v = cbor[0], cbor[1]\n"))
brk("c17-bchar-no-type-check", ["C17"], (C, "        if (not isinstance(cbstr, bytes)) or (len(cbstr) != 1):\n            raise ValueError(f\"Unable to create component type from {cbstr}\")\n        if (ret := cbstr.decode()).isalpha():", "        if (ret := cbstr.decode(\"ascii\", \"replace\"))[0].isalpha():"))
brk("c17-uuid-typeerror", ["C17"], (M, "        if len(cbstr) != 16:\n            raise ValueError(f\"Unable to construct UUID from: {cbstr.hex()}\")", "        if len(cbstr) != 16:\n            raise TypeError(f\"Unable to construct UUID from: {cbstr.hex()}\")"))
brk("c17-direct-loads", ["C17"], (C, "        cbor = cls.deserialize_cbor(cbstr)\n        if not isinstance(cbor, list):\n            raise ValueError(f\"Unable to create Key/Value tuple from {cbstr}\")", "        cbor = cbor2.loads(cbstr)\n        if not isinstance(cbor, list):\n            raise ValueError(f\"Unable to create Key/Value tuple from {cbstr}\")"))
brk("c17-catch-narrowed", ["C17"], (C, "        except Exception:\n            # Catch all exceptions since cbor2.loads raises a lot of different exceptions for invalid data:", "        except cbor2.CBORDecodeError:\n            # Catch all exceptions since cbor2.loads raises a lot of different exceptions for invalid data:"))
brk("c17-validate-skipped", ["C17"], (C, "        # Ensure that cbor2.loads() will not consume all the available memory\n        SuitObject.validate_cbor(cbstr)\n", "        # Ensure that cbor2.loads() will not consume all the available memory\n"))
brk("c17-from-cbor-non-bytes", ["C17"], (C, "                value[child[0]] = child[1].from_cbor(cls.ensure_cbor(v))\n        return cls(value)\n\n    def to_cbor(self) -> bytes:\n        \"\"\"Dump SUIT representation to cbor encoded bytes.\"\"\"\n        data = {}", "                value[child[0]] = child[1].from_cbor(v)\n        return cls(value)\n\n    def to_cbor(self) -> bytes:\n        \"\"\"Dump SUIT representation to cbor encoded bytes.\"\"\"\n        data = {}"))
brk("c17-version-wrap-cycle-guard-removed-new-cycle", ["C17"], (SEC, "            \"recipients*\": SuitList,", "            \"recipients*\": cbstr(SuitList),"), (SEC, 'CoseRecipient._metadata.map["recipients*"] = CoseRecipientList', 'CoseRecipient._metadata.map["recipients*"] = cbstr(CoseRecipientList)'))
brk("c17-unfix-shared-values", ["C17"], (C, "        SuitObject.reject_shared_values(data)\n        return data\n", "        return data\n"))
brk("c17-shared-guard-skips-strings", ["C17"], (C, "            elif isinstance(item, (bytes, str)) and len(item) > 1:\n                children = []\n", ""))
brk("c17-shared-guard-skips-maps", ["C17"], (C, "            elif isinstance(item, Mapping):\n                children = [*item.keys(), *item.values()]\n", ""))
brk("c17-shared-guard-wrong-error", ["C17"], (C, '                raise ValueError("CBOR shared values are not supported!")', '                raise RuntimeError("CBOR shared values are not supported!")'))
brk("c17-unfix-snan", ["C17"], (C, "            if isinstance(item, Decimal) and item.is_snan():\n                raise ValueError(\"CBOR decimal fractions holding a signaling NaN are not supported!\")\n", ""))
brk("c17-snan-check-after-skip", ["C17"], (C, "            if isinstance(item, Decimal) and item.is_snan():\n                raise ValueError(\"CBOR decimal fractions holding a signaling NaN are not supported!\")\n", ""),
    (C, "            if id(item) in seen:\n                raise ValueError(\"CBOR shared values are not supported!\")\n", "            if isinstance(item, Decimal) and item.is_snan():\n                raise ValueError(\"CBOR decimal fractions holding a signaling NaN are not supported!\")\n            if id(item) in seen:\n                raise ValueError(\"CBOR shared values are not supported!\")\n"))
brk("c17-snan-wrong-error", ["C17"], (C, "                raise ValueError(\"CBOR decimal fractions holding a signaling NaN are not supported!\")", "                raise ArithmeticError(\"CBOR decimal fractions holding a signaling NaN are not supported!\")"))
ben("c17-snan-any-nan", ["C17"], (C, "            if isinstance(item, Decimal) and item.is_snan():", "            if isinstance(item, Decimal) and item.is_nan():"))
brk("c17-validate-after-loads", ["C17"], (C, "        SuitObject.validate_cbor(cbstr)\n        try:\n            with io.BytesIO(cbstr) as stream:\n                data = cbor2.load(stream)\n", "        try:\n            with io.BytesIO(cbstr) as stream:\n                data = cbor2.load(stream)\n                SuitObject.validate_cbor(cbstr)\n"))
brk("c17-length-check-inverted", ["C17"], (C, "        if requested_memory_len and requested_memory_len > len(cbstr):", "        if requested_memory_len and requested_memory_len < len(cbstr):"))
brk("c17-empty-check-dropped", ["C17"], (C, "        if len(cbstr) < 1:\n            raise ValueError(\"The cbstr parsed object is empty\")\n", "        if len(cbstr) < 0:\n            raise ValueError(\"The cbstr parsed object is empty\")\n"))
ben("c17-validate-with-marker", ["C17"], (C, "        # Ensure that cbor2.loads() will not consume all the available memory\n        SuitObject.validate_cbor(cbstr)\n", "        size = len(cbstr)\n        logger.debug(size)\n        SuitObject.validate_cbor(cbstr)\n"))
ben("c17-length-check-flipped-form", ["C17"], (C, "        if requested_memory_len and requested_memory_len > len(cbstr):", "        if requested_memory_len and len(cbstr) < requested_memory_len:"))
ben("c17-empty-check-eq0", ["C17"], (C, "        if len(cbstr) < 1:", "        if len(cbstr) == 0:"))
ben("c17-isinstance-tuple", ["C17"], (C, "        if not isinstance(bitval, int):\n            raise ValueError(f\"Unable to create bitfield from: {bitval}\")\n", "        if not isinstance(bitval, (int, bool)):\n            raise ValueError(f\"Unable to create bitfield from: {bitval}\")\n"))
ben("c17-len-guard-form", ["C17"], (C, "                if index >= len(value_list):\n                    raise ValueError(f\"Incomplete list. Missing: {key}\")\n", "                if not index < len(value_list):\n                    raise ValueError(f\"Incomplete list. Missing: {key}\")\n"))
ben("c17-embedded-or-empty", ["C17"], (C, "                if not cls._metadata.embedded:\n                    raise ValueError(f\"Unknown parameter: {k}\")\n                for item in cls._metadata.embedded:", "                if not cls._metadata.embedded:\n                    raise ValueError(f\"Unknown parameter: {k}\")\n                for item in cls._metadata.embedded or []:"))

# ------------------------------------------------------------------ C18 determinism
brk("c18-timestamp-in-manifest", ["C18"], (IO, "        suit_obj = SuitEnvelopeTagged.from_obj(data)\n        suit_obj.update_severable_digests()", "        import time\n        data.setdefault(\"_built\", int(time.time()))\n        data.pop(\"_built\")\n        suit_obj = SuitEnvelopeTagged.from_obj(data)\n        suit_obj.update_severable_digests()"))
brk("c18-set-iteration", ["C18"], (TOPENV, "            for k in list(self._envelope[\"SUIT_Envelope_Tagged\"].keys())", "            for k in set(self._envelope[\"SUIT_Envelope_Tagged\"].keys())"))
brk("c18-class-level-cache", ["C18"], (SEC, "    def hash(self, bstr: bytes) -> str:\n        \"\"\"Compute hash value.\"\"\"\n", "    _memo = {}\n\n    def hash(self, bstr: bytes) -> str:\n        \"\"\"Compute hash value.\"\"\"\n        if len(bstr) in self._memo:\n            return self._memo[len(bstr)]\n        self._memo[len(bstr)] = bstr[:0].hex()\n"))
brk("c18-lru-cache", ["C18"], (M, "    @staticmethod\n    def _convert_version_part(part):", "    @staticmethod\n    @functools.lru_cache(maxsize=None)\n    def _convert_version_part(part):"), (M, "from enum import Enum\n", "from enum import Enum\nimport functools\n"))
brk("c18-metadata-patched-in-function", ["C18"], (M, "    @classmethod\n    @log_call\n    def from_obj(cls, obj: Union[List[int], str]) -> SuitList:\n        \"\"\"Restore SUIT representation from passed object.\"\"\"\n", "    @classmethod\n    @log_call\n    def from_obj(cls, obj: Union[List[int], str]) -> SuitList:\n        \"\"\"Restore SUIT representation from passed object.\"\"\"\n        cls._metadata.children[0] = SuitInt\n"))
brk("c18-env-dependent-create", ["C18"], (PAY, "            elif pathlib.Path.is_file(pathlib.Path(v)):", "            elif pathlib.Path.is_file(pathlib.Path(os.environ.get(\"SUIT_PAYLOAD_DIR\", \"\")) / v):"), (PAY, "import pathlib\n", "import pathlib\nimport os\n"))
brk("c18-cwd-in-image", ["C18"], (IMG, "            combined_hex.write_hex_file(dir_name + \"/suit_installed_envelopes_\" + domain.name.lower() + \"_merged.hex\")", "            combined_hex.write_hex_file(os.path.join(os.getcwd(), dir_name) + \"/suit_installed_envelopes_\" + domain.name.lower() + \"_merged.hex\")"))
brk("c18-mutable-default", ["C18"], (CACHE, "    def __init__(self, eb_size: int):\n        \"\"\"Initialize a CachePartition object.\"\"\"\n        self.first_slot = True\n        self.cache_data = bytes()\n        self.eb_size = eb_size\n        self.uris = []", "    def __init__(self, eb_size: int, uris=[]):\n        \"\"\"Initialize a CachePartition object.\"\"\"\n        self.first_slot = True\n        self.cache_data = bytes()\n        self.eb_size = eb_size\n        uris.append(None)\n        uris.pop()\n        self.uris = uris"))
brk("c18-class-attr-assignments", ["C18"], (IMG, "        self._assignments = {}\n        self._base_address = base_address", "        self._base_address = base_address"), (IMG, "    _LAYOUT = []\n\n    # Default manifest role assignments", "    _LAYOUT = []\n    _assignments = {}\n\n    # Default manifest role assignments"))
brk("c18-encryptor-stale-kw", ["C18"], (ENC, "        self._kw_alg_convert(kw_alg)\n        return self.generate_encryption_info_and_encrypted_payload(encrypted_asset, encrypted_cek, key_id)", "        if kw_alg == SuitKWAlgorithms.A256KW:\n            self._kw_alg_convert(kw_alg)\n        return self.generate_encryption_info_and_encrypted_payload(encrypted_asset, encrypted_cek, key_id)"))
brk("c18-yaml-sort-hook", ["C18"], (IO, "            data = json.load(fh)\n        return data", "            data = json.load(fh)\n        return dict(sorted(data.items())) if len(data) > 1 else data"))
brk("c18-id-based-key", ["C18"], (C, "                    dict_key = key.to_obj()\n                    if not isinstance(dict_key, str):\n                        dict_key = json.dumps(dict_key)", "                    dict_key = key.to_obj()\n                    if not isinstance(dict_key, str):\n                        dict_key = json.dumps(dict_key) if dict_key else str(id(key))"))
ben("c18-local-dict-cache", ["C18"], (M, "        if isinstance(obj, str):\n            obj = [cls._convert_version_part(part) for part in obj.replace(\"-\", \".\").split(\".\")]", "        if isinstance(obj, str):\n            seen = {}\n            for part in obj.replace(\"-\", \".\").split(\".\"):\n                seen[part] = cls._convert_version_part(part)\n            obj = [cls._convert_version_part(part) for part in obj.replace(\"-\", \".\").split(\".\")]"))

# ------------------------------------------------------------------ C19 templates
brk("c19-app-index-not-incremented", ["C19"], (ROOT_T, "{%- if application is defined %}\n    {%- set component_index = component_index + 1 %}\n    {%- set app_component_index = component_index %}", "{%- if application is defined %}\n    {%- set app_component_index = component_index %}"))
brk("c19-top-index-off-by-one", ["C19"], (ROOT_T, "    {%- set top_component_index = component_index %}", "    {%- set top_component_index = component_index + 1 %}"))
brk("c19-without-top-alias-not-copy", ["C19"], (ROOT_T, "{%- set component_list_without_top = component_list[:] %}", "{%- set component_list_without_top = component_list %}"))
brk("c19-dependency-zero-missing", ["C19"], (ROOT_T, '        "0": {}\n{%- for component_element in component_list %}', '{%- for component_element in component_list %}'))
brk("c19-uri-name-mismatch", ["C19"], (ROOT_T, "    '#{{ application['name'] }}': {{ artifacts_folder ~ application['name'] }}.suit\n", "    '#{{ application['name'] }}_app': {{ artifacts_folder ~ application['name'] }}.suit\n"))
brk("c19-digest-of-other-image", ["C19"], (ROOT_T, "        suit-parameter-uri: '#{{ top['name'] }}'\n        suit-parameter-image-digest:\n          suit-digest-algorithm-id: cose-alg-sha-256\n          suit-digest-bytes:\n            envelope: {{ artifacts_folder ~ top['name'] }}.suit", "        suit-parameter-uri: '#{{ top['name'] }}'\n        suit-parameter-image-digest:\n          suit-digest-algorithm-id: cose-alg-sha-256\n          suit-digest-bytes:\n            envelope: {{ artifacts_folder ~ application['name'] }}.suit"))
brk("c19-radio-class-from-app-config", ["C19"], (ROOT_T, "{%- set mpi_rad_class_name = sysbuild['config']['SB_CONFIG_SUIT_MPI_RAD_LOCAL_1_CLASS_NAME']|default('nRF54H20_sample_rad') %}", "{%- set mpi_rad_class_name = sysbuild['config']['SB_CONFIG_SUIT_MPI_APP_LOCAL_1_CLASS_NAME']|default('nRF54H20_sample_rad') %}"))
brk("c19-default-class-typo", ["C19"], (ROOT_T, "|default('nRF54H20_sample_app') %}", "|default('nRF54H20_sample_application') %}"))
brk("c19-unknown-directive-name", ["C19"], (ROOT_T, "    suit-invoke:\n    - suit-directive-set-component-index: [{{ component_list_without_top|join(',') }}]\n    - suit-condition-dependency-integrity:", "    suit-invoke:\n    - suit-directive-set-component-index: [{{ component_list_without_top|join(',') }}]\n    - suit-condition-dependency-integrety:"))
brk("c19-seqnum-elif-wrong-var", ["C19"], (ROOT_T, "{%- elif DEFAULT_SEQ_NUM is defined %}\n    suit-manifest-sequence-number: {{ DEFAULT_SEQ_NUM }}", "{%- elif DEFAULT_SEQ_NUM is defined %}\n    suit-manifest-sequence-number: {{ APP_ROOT_SEQ_NUM }}"))
brk("c19-top-validate-wrong-index", ["C19"], (TOP_T, "    suit-validate:\n    - suit-directive-set-component-index: 2", "    suit-validate:\n    - suit-directive-set-component-index: 3"))
brk("c19-top-digest-of-secdom", ["C19"], (TOP_T, "    suit-validate:\n    - suit-directive-set-component-index: 2\n    - suit-directive-override-parameters:\n        suit-parameter-image-digest:\n          suit-digest-algorithm-id: cose-alg-sha-256\n          suit-digest-bytes:\n            envelope: {{ artifacts_folder ~ sysctrl['name'] }}.suit", "    suit-validate:\n    - suit-directive-set-component-index: 2\n    - suit-directive-override-parameters:\n        suit-parameter-image-digest:\n          suit-digest-algorithm-id: cose-alg-sha-256\n          suit-digest-bytes:\n            envelope: {{ artifacts_folder ~ secdom['name'] }}.suit"))
brk("c19-top-integrated-swapped", ["C19"], (TOP_T, "    '#{{ secdom['name'] }}': {{ artifacts_folder ~ secdom['name'] }}.suit\n    '#{{ sysctrl['name'] }}': {{ artifacts_folder ~ sysctrl['name'] }}.suit", "    '#{{ secdom['name'] }}': {{ artifacts_folder ~ sysctrl['name'] }}.suit\n    '#{{ sysctrl['name'] }}': {{ artifacts_folder ~ secdom['name'] }}.suit"))
brk("c19-glue-version-after-render", ["C19"], (BUILD, "        if arguments.version_file is not None:\n            configuration.update(read_version_file(arguments.version_file))\n        configuration[\"output_envelope\"] = arguments.output_suit\n        configuration[\"artifacts_folder\"] = arguments.artifacts_folder\n        output_suit_content = render_template(arguments.template_suit, configuration)", "        configuration[\"output_envelope\"] = arguments.output_suit\n        configuration[\"artifacts_folder\"] = arguments.artifacts_folder\n        output_suit_content = render_template(arguments.template_suit, configuration)\n        if arguments.version_file is not None:\n            configuration.update(read_version_file(arguments.version_file))"))
brk("c19-schema-drops-process-dependency", ["C19"], (M, "            suit_directive_process_dependency: SuitRepPolicy,\n", ""))
ben("c19-comment-and-whitespace", ["C19"], (ROOT_T, "        # Key is the index of suit-components that describe the dependency manifest\n", "        # dependency manifests, by component index\n"))
ben("c19-extra-set", ["C19"], (ROOT_T, "{%- set component_list = [] %}", "{%- set component_list = [] %}\n{%- set unused_marker = 0 %}"))

# ------------------------------------------------------------------ C03 round trip
brk("c03-yaml-sorted", ["C03"], (IO, "yaml.dump(cls.parse_yaml_submanifests(data) if parse_hierarchy is True else data, fh, sort_keys=False)", "yaml.dump(cls.parse_yaml_submanifests(data) if parse_hierarchy is True else data, fh)"))
brk("c03-json-sorted", ["C03"], (IO, "json.dump(cls.parse_json_submanifests(data) if parse_hierarchy is True else data, fh, sort_keys=False)", "json.dump(cls.parse_json_submanifests(data) if parse_hierarchy is True else data, fh, sort_keys=True)"))
brk("c03-image-size-key", ["C03"], (M, '    def to_obj(self) -> dict:\n        """Dump SUIT representation to object."""\n        return {"raw": super().to_obj()}\n\n    @classmethod\n    def from_obj(cls, obj: dict) -> SuitUint:', '    def to_obj(self) -> dict:\n        """Dump SUIT representation to object."""\n        return {"size": super().to_obj()}\n\n    @classmethod\n    def from_obj(cls, obj: dict) -> SuitUint:'))
brk("c03-bstr-truncated-hex", ["C03"], (C, "        return self.value.hex()\n\n\nclass SuitEmptyBstr", "        return self.value.hex()[:128]\n\n\nclass SuitEmptyBstr"))
ben("c03-bstr-upper", ["C03"], (C, "        return self.value.hex()\n\n\nclass SuitEmptyBstr", "        return self.value.hex().upper() if len(self.value) > 64 else self.value.hex()\n\n\nclass SuitEmptyBstr"))
brk("c03-format-table-asym", ["C03"], (IO, '        "yaml": "from_yaml_file",\n', ''))
brk("c03-hierarchy-wrong-key", ["C03"], (IO, '                data["SUIT_Envelope_Tagged"][suit_integrated_dependencies.name][key] = SuitEnvelopeTagged.from_cbor(\n                    binascii.a2b_hex(data["SUIT_Envelope_Tagged"][suit_integrated_dependencies.name][key])\n                ).to_obj()', '                data["SUIT_Envelope_Tagged"][suit_integrated_dependencies.name][key] = SuitEnvelopeTagged.from_cbor(\n                    binascii.a2b_hex(list(data["SUIT_Envelope_Tagged"][suit_integrated_dependencies.name].values())[0])\n                ).to_obj()'))
brk("c03-yaml-anchor-after", ["C03"], (IO, '                data = {**{"SUIT_Dependent_Manifests": {}}, **data}', '                data = {**data, **{"SUIT_Dependent_Manifests": {}}}'))
brk("c03-expand-inverted", ["C03"], (IO, "json.dump(cls.parse_json_submanifests(data) if parse_hierarchy is True else data, fh, sort_keys=False)", "json.dump(cls.parse_json_submanifests(data) if parse_hierarchy is False else data, fh, sort_keys=False)"))
brk("c03-expand-always", ["C03"], (IO, "yaml.dump(cls.parse_yaml_submanifests(data) if parse_hierarchy is True else data, fh, sort_keys=False)", "yaml.dump(cls.parse_yaml_submanifests(data), fh, sort_keys=False)"))
brk("c03-anchor-after", ["C03"], (IO, 'data = {**{"SUIT_Dependent_Manifests": {}}, **data}', 'data = {**data, **{"SUIT_Dependent_Manifests": {}}}'))
brk("c03-yaml-copy-not-alias", ["C03"], (IO, """                data["SUIT_Envelope_Tagged"][suit_integrated_dependencies.name][key] = data["SUIT_Dependent_Manifests"][
                    f"{key}_envelope"
                ]""", """                data["SUIT_Envelope_Tagged"][suit_integrated_dependencies.name][key] = data["SUIT_Dependent_Manifests"][
                    f"{key}"
                ]"""))
brk("c03-dispatch-other-table", ["C03"], (IO, "return getattr(self, self.SERIALIZERS[output_type.lower()])", "return getattr(self, self.SERIALIZERS[output_type])"))
ben("c03-dispatch-temp", ["C03"], (IO, "return getattr(self, self.SERIALIZERS[output_type.lower()])", "name = self.SERIALIZERS[output_type.lower()]\n            return getattr(self, name)"))
ben("c03-from-suit-temp", ["C03"], (IO, "            suit = SuitEnvelopeTagged.from_cbor(data)\n            return suit.to_obj()\n\n    @classmethod\n    def from_suit_file_simplified", "            model = SuitEnvelopeTagged.from_cbor(data)\n            description = model.to_obj()\n            return description\n\n    @classmethod\n    def from_suit_file_simplified"))
ben("c03-expand-on-truthiness", ["C03"], (IO, "json.dump(cls.parse_json_submanifests(data) if parse_hierarchy is True else data, fh, sort_keys=False)", "json.dump(cls.parse_json_submanifests(data) if parse_hierarchy else data, fh, sort_keys=False)"))
brk("c03-keyid-union-order", ["C03", "C02"], (SEC, "        children=[\n            cbstr(SuitInt),\n            SuitBstr,\n        ]", "        children=[\n            SuitBstr,\n            cbstr(SuitInt),\n        ]"))
brk("c03-uuid-size-17", ["C03", "C02"], (M, "        if len(cbstr) != 16:\n            raise ValueError(f\"Unable to construct UUID from: {cbstr.hex()}\")", "        if len(cbstr) != 17:\n            raise ValueError(f\"Unable to construct UUID from: {cbstr.hex()}\")"))
brk("c03-new-parse-only-check", ["C03"], (C, "    @classmethod\n    def from_cbor(cls, cbstr: bytes) -> SuitHex:\n        \"\"\"Restore SUIT representation from passed CBOR.\"\"\"\n        return cls(cbstr)", "    @classmethod\n    def from_cbor(cls, cbstr: bytes) -> SuitHex:\n        \"\"\"Restore SUIT representation from passed CBOR.\"\"\"\n        if len(cbstr) > 65535:\n            raise ValueError(\"too long\")\n        return cls(cbstr)"))
brk("c03-unnamed-filter", ["C03"], (C, "        return {k: v[1].to_obj() for k, v in self.value.items()}", "        return {k: v[1].to_obj() for k, v in self.value.items() if k}"))
brk("c03-parse-simplified-model", ["C03"], (IO, "            suit = SuitEnvelopeTagged.from_cbor(data)\n            return suit.to_obj()\n\n    @classmethod\n    def from_suit_file_simplified", "            suit = SuitEnvelopeTaggedSimplified.from_cbor(data)\n            return suit.to_obj()\n\n    @classmethod\n    def from_suit_file_simplified"))
ben("c03-json-explicit-default", ["C03"], (IO, "json.dump(cls.parse_json_submanifests(data) if parse_hierarchy is True else data, fh, sort_keys=False)", "json.dump(cls.parse_json_submanifests(data) if parse_hierarchy is True else data, fh)"))

# ------------------------------------------------------------------ early exits that skip the work (generic.sole_outcome)
brk("c16-early-return-skips-storage-file", ["C16"], (IMG, "        # The suit storage file for update path contains only update candidate info; installed envelope is not touched\n        uci_hex = IntelHex()\n", "        if update_candidate_size == 0:\n            return\n        uci_hex = IntelHex()\n"))
brk("c12-early-return-skips-record", ["C12"], (MPI, "        \"\"\"Generate HEX file for a single manifest role.\"\"\"\n", "        \"\"\"Generate HEX file for a single manifest role.\"\"\"\n        if not class_name:\n            return\n"))
brk("c01-early-return-skips-digest", ["C01"], (ENV, "    def update_digest(self):\n        \"\"\"Update digest in the envelope.\"\"\"\n", "    def update_digest(self):\n        \"\"\"Update digest in the envelope.\"\"\"\n        if getattr(self, \"_digest_final\", False):\n            return\n"))

# ------------------------------------------------------------------ the analysed effect is absent (generic.absent -> VIOLATION, not exit 2)
brk("c16-storage-file-not-written", ["C16"], (IMG, "        uci_hex.write_hex_file(file_name)\n", "        pass\n"))
brk("c12-record-not-written", ["C12"], (MPI, "        mpi_hex.write_hex_file(output_file)\n", "        pass\n"))
brk("c12-merge-dropped", ["C12"], (MPI, "                merged_hex.merge(slot_hex)\n", "                pass\n"))
brk("c07-envelopes-not-added", ["C07"], (IMG, "        for envelope in envelopes:\n            storage.add_envelope(envelope)\n", "        for envelope in envelopes:\n            pass\n"))
brk("c10-padding-call-dropped", ["C10"], (CACHE, "self.add_padding(", "bytes("))
brk("c11-dependency-guard-flipped", ["C11"], (CACHE, "        if dependency_regex is not None:\n            integrated_dependencies", "        if dependency_regex is None:\n            integrated_dependencies"))
brk("c11-omit-guard-flipped", ["C11"], (CACHE, "        if omit_payload_regex is None:\n            payloads_to_extract = integrated", "        if omit_payload_regex is not None:\n            payloads_to_extract = integrated"))
brk("c10-from-payloads-swapped", ["C10"], (CACHE, "            cache.add_cache_slot(uri, data)\n", "            cache.add_cache_slot(data, uri)\n"))
brk("c10-from-payloads-dropped", ["C10"], (CACHE, "            cache.add_cache_slot(uri, data)\n", "            pass\n"))
brk("c10-merge-file-dropped", ["C10"], (CACHE, "            cache.merge_single_cache_file(single_input)\n", "            pass\n"))
brk("c10-close-dropped", ["C10"], (CACHE, '    cache.close_and_save_cache(kwargs["output_file"])\n', "    pass\n"))
brk("c10-item-arity", ["C10"], (CACHE, "            if len(args) < 2:", "            if len(args) <= 2:"))
brk("c04-dispatch-hash-eddsa-flipped", ["C04"], (KMS, '            if algorithm == "hash-eddsa":\n                return self._create_cose_ed_prehashed_signature', '            if algorithm != "hash-eddsa":\n                return self._create_cose_ed_prehashed_signature'))
brk("c04-dispatch-ed-and", ["C04"], (KMS, "        elif isinstance(private_key, Ed25519PrivateKey) or isinstance(private_key, Ed448PrivateKey):\n            if algorithm", "        elif isinstance(private_key, Ed25519PrivateKey) and isinstance(private_key, Ed448PrivateKey):\n            if algorithm"))
brk("c01-severable-guard-not-in", ["C01"], (ENV, "            if severable_element in self.SuitEnvelopeTagged.value.SuitEnvelope[suit_manifest].SuitManifest and hasattr(", "            if severable_element not in self.SuitEnvelopeTagged.value.SuitEnvelope[suit_manifest].SuitManifest and hasattr("))
brk("c01-severable-guard-or", ["C01"], (ENV, "            if severable_element in self.SuitEnvelopeTagged.value.SuitEnvelope[suit_manifest].SuitManifest and hasattr(", "            if severable_element in self.SuitEnvelopeTagged.value.SuitEnvelope[suit_manifest].SuitManifest or hasattr("))

# ------------------------------------------------------------------ C03-D5 whole item decoded
brk("c03-unfix-trailing-bytes", ["C03"], (C, "        if trailing_data:\n", "        if False and trailing_data:\n"))
brk("c03-loads-again", ["C03"], (C, "            with io.BytesIO(cbstr) as stream:\n                data = cbor2.load(stream)\n                trailing_data = len(cbstr) - stream.tell()\n", "            data = cbor2.loads(cbstr)\n            trailing_data = 0\n"))

# ---- from the second mutation-probe batch
brk("c03-dump-auto-polarity", ["C03"], (TOPENV, '        if output_type == "AUTO" and file_name is not None:\n            # if AUTO mode used, check file extension and remove dot at the beginning\n            output_type = pathlib.Path(file_name).suffix[1:]\n\n        if file_name is None:\n            output_type = "STDOUT"',
                                       '        if output_type != "AUTO" and file_name is not None:\n            # if AUTO mode used, check file extension and remove dot at the beginning\n            output_type = pathlib.Path(file_name).suffix[1:]\n\n        if file_name is None:\n            output_type = "STDOUT"'))
brk("c03-dump-stdout-polarity", ["C03"], (TOPENV, '        if file_name is None:\n            output_type = "STDOUT"', '        if file_name is not None:\n            output_type = "STDOUT"'))
brk("c03-dump-serializer-args-swapped", ["C03"], (TOPENV, "dump_method(file_name, self._envelope, parse_hierarchy)", "dump_method(file_name, parse_hierarchy, self._envelope)"))
ben("c03-dump-elif-form", ["C03"], (TOPENV, '        if output_type == "AUTO" and file_name is not None:\n            # if AUTO mode used, check file extension and remove dot at the beginning\n            output_type = pathlib.Path(file_name).suffix[1:]\n\n        if file_name is None:\n            output_type = "STDOUT"',
                                   '        if file_name is None:\n            output_type = "STDOUT"\n        elif output_type == "AUTO":\n            output_type = pathlib.Path(file_name).suffix[1:]'))
brk("c05-placeholder-polarity", ["C05"], (SEC, "        if suit_digest_bytes.name not in obj.keys():\n            obj[suit_digest_bytes.name] = \"\"", "        if suit_digest_bytes.name in obj.keys():\n            obj[suit_digest_bytes.name] = \"\""))
brk("c01-prepare-returns-stale-bytes", ["C01"], (IO, "        suit_obj = SuitEnvelopeTagged.from_obj(data)\n        suit_obj.update_severable_digests()\n        suit_obj.update_digest()\n        return suit_obj.to_cbor()",
                                                 "        suit_obj = SuitEnvelopeTagged.from_obj(data)\n        raw = suit_obj.to_cbor()\n        suit_obj.update_severable_digests()\n        suit_obj.update_digest()\n        return raw"))
brk("c01-prepare-returns-other-object", ["C01"], (IO, "        suit_obj.update_digest()\n        return suit_obj.to_cbor()\n\n    def to_suit_file(self", "        suit_obj.update_digest()\n        return SuitEnvelopeTaggedSimplified.from_obj(data).to_cbor()\n\n    def to_suit_file(self"))
brk("c06-dispatch-inverted", ["C06"], (ENCCMD, '    if kwargs["encrypt_subcommand"] == ENCRYPT_AND_GENERATE_FIRMWARE_CMD:', '    if kwargs["encrypt_subcommand"] != ENCRYPT_AND_GENERATE_FIRMWARE_CMD:'))
brk("c12-dispatch-swapped", ["C12"], (MPI, '    if kwargs["mpi"] == MPI_GENERATE:', '    if kwargs["mpi"] == MPI_MERGE:'), (MPI, '    elif kwargs["mpi"] == MPI_MERGE:', '    elif kwargs["mpi"] == MPI_GENERATE:'))
brk("c16-dispatch-swapped", ["C16"], (IMG, '    if kwargs["image"] == ImageCreator.IMAGE_CMD_BOOT:', '    if kwargs["image"] == ImageCreator.IMAGE_CMD_UPDATE:'), (IMG, '    elif kwargs["image"] == ImageCreator.IMAGE_CMD_UPDATE:', '    elif kwargs["image"] == ImageCreator.IMAGE_CMD_BOOT:'))
brk("c10-dispatch-envelope-as-merge", ["C10"], (CACHE, '    elif kwargs["cache_create_subcommand"] == CACHE_CREATE_FROM_ENVELOPE_CMD:', '    elif kwargs["cache_create_subcommand"] == CACHE_MERGE_CMD:'), (CACHE, '    elif kwargs["cache_create_subcommand"] == CACHE_MERGE_CMD:\n        CacheMerge', '    elif kwargs["cache_create_subcommand"] == CACHE_CREATE_FROM_ENVELOPE_CMD:\n        CacheMerge'))
ben("c06-dispatch-early-return", ["C06"], (ENCCMD, '    if kwargs["encrypt_subcommand"] == ENCRYPT_AND_GENERATE_FIRMWARE_CMD:\n        encrypt_and_generate(**kwargs)\n    elif kwargs["encrypt_subcommand"] == GENERATE_INFO_FIRMWARE_CMD:\n        generate_info(**kwargs)\n    else:\n        raise',
                                           '    subcommand = kwargs["encrypt_subcommand"]\n    if subcommand == GENERATE_INFO_FIRMWARE_CMD:\n        generate_info(**kwargs)\n        return\n    if subcommand == ENCRYPT_AND_GENERATE_FIRMWARE_CMD:\n        encrypt_and_generate(**kwargs)\n        return\n    else:\n        raise'))
brk("c06-output-path-join-swapped", ["C06"], (ENCCMD, '        SuitKWAlgorithms(kwargs["kw_alg"]),\n    )\n    with open(os.path.join(kwargs["output_dir"], "suit_encryption_info.bin"), "wb") as file:\n        file.write(encryption_info)\n    with open(os.path.join(kwargs["output_dir"], "encrypted_content.bin"), "wb") as file:', '        SuitKWAlgorithms(kwargs["kw_alg"]),\n    )\n    with open(os.path.join(kwargs["output_dir"], "suit_encryption_info.bin"), "wb") as file:\n        file.write(encryption_info)\n    with open(os.path.join("encrypted_content.bin", kwargs["output_dir"]), "wb") as file:'))
brk("c15-key-write-dropped", ["C15"], (KEYS, "            fd.write(data)\n", "            pass\n"))
brk("c15-keypair-files-swapped", ["C15"], (KEYS, 'self._write(private, f"{file_name_prefix}_priv.{encoding}")', 'self._write(public, f"{file_name_prefix}_priv.{encoding}")'))
ben("c15-keypair-names-in-locals", ["C15"], (KEYS, '        self._write(private, f"{file_name_prefix}_priv.{encoding}")\n        self._write(public, f"{file_name_prefix}_pub.{encoding}")', '        private_name = file_name_prefix + "_priv." + encoding\n        public_name = file_name_prefix + "_pub." + encoding\n        self._write(private, private_name)\n        self._write(public, public_name)'))


# ------------------------------------------------------------------ session 2026-09-28: mutation-probe operators (DESIGN 10.14)
brk("c10-merge-break-at-padding", ["C10"], (CACHE, "                continue  # Empty key means padding - skip", "                break  # Empty key means padding - skip"))
brk("c07-layout-break-other-domain", ["C07"], (IMG, "            if storage_domain is not None and storage_domain != domain:\n                continue",
                                               "            if storage_domain is not None and storage_domain != domain:\n                break"))
brk("c07-layout-break-empty-slot", ["C07"], (IMG, "                envelope_count += 1\n            else:\n                continue",
                                             "                envelope_count += 1\n            else:\n                break"))
brk("c02-tstr-falsy-guard", ["C02"], (C, "        if (value is not None) and (not isinstance(value, str)):", "        if value and (not isinstance(value, str)):"))
brk("c09-kms-env-before-inherited", ["C09"], (SIGNCMD, '        elif self.kms_script is None:\n            if os.environ.get("NCS_SUIT_KMS_SCRIPT"):',
                                              '        elif self.kms_script is None or os.environ.get("NCS_SUIT_KMS_SCRIPT"):\n            if os.environ.get("NCS_SUIT_KMS_SCRIPT"):'))
ben("c09-kms-is-none-spelled", ["C09"], (SIGNCMD, "        elif self.kms_script is None:", "        elif not (self.kms_script is not None):"))
