"""Variant corpus: breaking edits that must be reported and benign edits that must stay silent."""

K = "suit_generator/suit/types/keys.py"
C = "suit_generator/suit/types/common.py"
M = "suit_generator/suit/manifest.py"
SEC = "suit_generator/suit/security.py"
ENV = "suit_generator/suit/envelope.py"
PAY = "suit_generator/suit/payloads.py"
IO = "suit_generator/input_output.py"
TOPENV = "suit_generator/envelope.py"
IMG = "suit_generator/cmd_image.py"
MPI = "suit_generator/cmd_mpi.py"
CACHE = "suit_generator/cmd_cache_create.py"
PEX = "suit_generator/cmd_payload_extract.py"
SIGNCMD = "suit_generator/cmd_sign.py"
ENCCMD = "suit_generator/cmd_encrypt.py"
KEYS = "suit_generator/cmd_keys.py"
CONV = "suit_generator/cmd_convert.py"
SIGN = "ncs/sign_script.py"
KMS = "ncs/basic_kms.py"
ENC = "ncs/encrypt_script.py"
BUILD = "ncs/build.py"
ROOT_T = "ncs/root_with_nordic_top_envelope.yaml.jinja2"
TOP_T = "ncs/nordic_top_envelope.yaml.jinja2"
CFG = "build_configuration/configuration.py"

VARIANTS = []


def brk(id, props, *edits, silent=()):
    VARIANTS.append({"id": id, "kind": "break", "props": list(props), "edits": list(edits), "silent": list(silent)})


def ben(id, props, *edits):
    VARIANTS.append({"id": id, "kind": "benign", "props": list(props), "edits": list(edits)})


# ------------------------------------------------------------------ C08 / C02 tables
brk("c08-swap-id", ["C08", "C02"], (K, 'id = 31\n    name = "suit-directive-swap"', 'id = 30\n    name = "suit-directive-swap"'))
brk("c08-dup-code", ["C08"], (K, 'id = 33\n    name = "suit-directive-unlink"', 'id = 32\n    name = "suit-directive-unlink"'))
brk("c08-rename", ["C08"], (K, 'name = "suit-condition-abort"', 'name = "suit-condition-abrt"'))
brk("c08-cwt-claim", ["C08"], (K, 'id = 7\n    name = "CW ID"', 'id = 8\n    name = "CW ID"'))
brk("c08-a192kw", ["C08"], (K, 'id = -4\n    name = "cose-alg-a192kw"', 'id = -3\n    name = "cose-alg-a192kw"'))
brk("c08-tag", ["C08", "C02"], (SEC, 'tag=Tag(96, "CoseEncryptTagged")', 'tag=Tag(16, "CoseEncryptTagged")'))
brk("c08-policy-bit", ["C08"], (K, 'id = 8\n    name = "suit-send-sysinfo-failure"', 'id = 16\n    name = "suit-send-sysinfo-failure"'))
brk("c08-restated-es521", ["C08"], (SIGN, "COSE_ALG_ES_521 = -36", "COSE_ALG_ES_521 = -37"))
brk("c08-restated-keyid", ["C08"], (ENC, "COSE_KEY_ID = 4", "COSE_KEY_ID = 3"))
brk("c08-lookup-by-id-in-from-obj", ["C08", "C02"], (C, 'if child := cls._get_method_and_name(k, "name"):', 'if child := cls._get_method_and_name(k, "id"):'))
brk("c08-key-moved-to-wrong-space", ["C08"],
    (M, "            suit_condition_version: SuitRepPolicy,\n", "            suit_condition_version: SuitRepPolicy,\n            suit_parameter_uri: SuitRepPolicy,\n"))
brk("c08-enum-accepts-any", ["C08"], (C, "if value not in [i.name for i in self._metadata.children]:", "if False:"))
ben("c08-reformat-keys", ["C08", "C02"], (K, 'class suit_directive_swap(suit_key):\n    """suit-directive-swap metadata."""\n\n    id = 31\n    name = "suit-directive-swap"',
                                         'class suit_directive_swap(suit_key):\n    """swap."""\n    name = "suit-directive-swap"\n    id = 0x1F'))
ben("c08-new-vocabulary", ["C08", "C02"],
    (K, 'class suit_timeout(suit_key):', 'class suit_priv_extension(suit_key):\n    """private."""\n\n    id = 99\n    name = "suit-priv-extension"\n\n\nclass suit_timeout(suit_key):'),
    (M, "from suit_generator.suit.types.keys import (", "from suit_generator.suit.types.keys import (\n    suit_priv_extension,"),
    (M, "            suit_parameter_version: cbstr(SuitParameterVersion),\n", "            suit_parameter_version: cbstr(SuitParameterVersion),\n            suit_priv_extension: SuitUint,\n"))

# ------------------------------------------------------------------ C02 shape / encoders
brk("c02-drop-cbstr-param-digest", ["C02"], (M, "suit_parameter_image_digest: cbstr(SuitDigest),", "suit_parameter_image_digest: SuitDigest,"))
brk("c02-extra-cbstr-uri", ["C02"], (M, "suit_parameter_uri: SuitTstr,", "suit_parameter_uri: cbstr(SuitTstr),"))
brk("c02-group-3", ["C02"], (M, "    _metadata = Metadata(children=[SuitCommand])\n    _group = 2", "    _metadata = Metadata(children=[SuitCommand])\n    _group = 3"))
brk("c02-union-order-compid", ["C02"], (M, "children=[SuitUUID, SuitBchar, cbstr(SuitTstr), cbstr(SuitInt), SuitBstr]", "children=[SuitUUID, SuitBchar, cbstr(SuitInt), cbstr(SuitTstr), SuitBstr]"))
brk("c02-canonical", ["C02"], (C, "            return cbor2.dumps(obj)\n        except Exception:\n            raise ValueError(\"Cannot serialize data!\")", "            return cbor2.dumps(obj, canonical=True)\n        except Exception:\n            raise ValueError(\"Cannot serialize data!\")"))
brk("c02-sorted-items", ["C02"], (C, "        data = {}\n        for k, v in self.value.items():\n            if k is suit_integrated_payloads", "        data = {}\n        for k, v in sorted(self.value.items(), key=lambda kv: kv[0].id):\n            if k is suit_integrated_payloads"))
brk("c02-cbstr-double", ["C02"], (C, "            return cbor2.dumps(super().to_cbor())", "            return cbor2.dumps(cbor2.dumps(super().to_cbor()))"))
brk("c02-tuple-position-swap", ["C02"], (SEC, '            "protected": cbstr(SuitHeaderMap),\n            "unprotected": SuitHeaderData,\n            "payload": CoseSign1Payload,', '            "unprotected": SuitHeaderData,\n            "protected": cbstr(SuitHeaderMap),\n            "payload": CoseSign1Payload,'))
brk("c02-bitfield-32", ["C02"], (M, "    _bit_class = SuitRepPolicyBits\n    _bit_length = 8", "    _bit_class = SuitRepPolicyBits\n    _bit_length = 4"))
brk("c02-value-dependent-wrap", ["C02"], (C, '    def to_cbor(self) -> bytes:\n        """Dump SUIT representation to cbor encoded bytes."""\n        return self.value.to_cbor()',
                                          '    def to_cbor(self) -> bytes:\n        """Dump SUIT representation to cbor encoded bytes."""\n        if len(self.value.to_cbor()) > 255:\n            return self.serialize_cbor(self.value.to_cbor())\n        return self.value.to_cbor()'))
brk("c02-flatten-only-payloads", ["C02"], (C, "            if k is suit_integrated_payloads or k is suit_integrated_dependencies:\n                data.update(", "            if k is suit_integrated_payloads:\n                data.update("))
brk("c02-try-each-unwrapped", ["C02"], (M, "    _metadata = Metadata(children=[cbstr(SuitCommandSequence)])", "    _metadata = Metadata(children=[SuitCommandSequence])"))
ben("c02-rename-class", ["C02", "C08"], (M, "SuitRepPolicy", "SuitReportingPolicy", "all"))
ben("c02-reorder-map-entries", ["C02", "C08"], (M, "            suit_directive_fetch: SuitRepPolicy,\n            suit_directive_copy: SuitRepPolicy,", "            suit_directive_copy: SuitRepPolicy,\n            suit_directive_fetch: SuitRepPolicy,"))
