"""Variant corpus: breaking edits that must be reported and benign edits that must stay silent."""

K = "suit_generator/suit/types/keys.py"
C = "suit_generator/suit/types/common.py"
M = "suit_generator/suit/manifest.py"
SEC = "suit_generator/suit/security.py"
ENV = "suit_generator/suit/envelope.py"
PAY = "suit_generator/suit/payloads.py"
IO = "suit_generator/input_output.py"
TOPENV = "suit_generator/envelope.py"
IMG = "suit_generator/cmd_image.py"
MPI = "suit_generator/cmd_mpi.py"
CACHE = "suit_generator/cmd_cache_create.py"
PEX = "suit_generator/cmd_payload_extract.py"
SIGNCMD = "suit_generator/cmd_sign.py"
ENCCMD = "suit_generator/cmd_encrypt.py"
KEYS = "suit_generator/cmd_keys.py"
CONV = "suit_generator/cmd_convert.py"
SIGN = "ncs/sign_script.py"
KMS = "ncs/basic_kms.py"
ENC = "ncs/encrypt_script.py"
BUILD = "ncs/build.py"
ROOT_T = "ncs/root_with_nordic_top_envelope.yaml.jinja2"
TOP_T = "ncs/nordic_top_envelope.yaml.jinja2"
CFG = "build_configuration/configuration.py"

VARIANTS = []


def brk(id, props, *edits, silent=()):
    VARIANTS.append({"id": id, "kind": "break", "props": list(props), "edits": list(edits), "silent": list(silent)})


def ben(id, props, *edits):
    VARIANTS.append({"id": id, "kind": "benign", "props": list(props), "edits": list(edits)})


# ------------------------------------------------------------------ C08 / C02 tables
brk("c08-swap-id", ["C08", "C02"], (K, 'id = 31\n    name = "suit-directive-swap"', 'id = 30\n    name = "suit-directive-swap"'))
brk("c08-dup-code", ["C08"], (K, 'id = 33\n    name = "suit-directive-unlink"', 'id = 32\n    name = "suit-directive-unlink"'))
brk("c08-rename", ["C08"], (K, 'name = "suit-condition-abort"', 'name = "suit-condition-abrt"'))
brk("c08-cwt-claim", ["C08"], (K, 'id = 7\n    name = "CW ID"', 'id = 8\n    name = "CW ID"'))
brk("c08-a192kw", ["C08"], (K, 'id = -4\n    name = "cose-alg-a192kw"', 'id = -3\n    name = "cose-alg-a192kw"'))
brk("c08-tag", ["C08", "C02"], (SEC, 'tag=Tag(96, "CoseEncryptTagged")', 'tag=Tag(16, "CoseEncryptTagged")'))
brk("c08-policy-bit", ["C08"], (K, 'id = 8\n    name = "suit-send-sysinfo-failure"', 'id = 16\n    name = "suit-send-sysinfo-failure"'))
brk("c08-restated-es521", ["C08"], (SIGN, "COSE_ALG_ES_521 = -36", "COSE_ALG_ES_521 = -37"))
brk("c08-restated-keyid", ["C08"], (ENC, "COSE_KEY_ID = 4", "COSE_KEY_ID = 3"))
brk("c08-lookup-by-id-in-from-obj", ["C08", "C02"], (C, 'if child := cls._get_method_and_name(k, "name"):', 'if child := cls._get_method_and_name(k, "id"):'))
brk("c08-key-moved-to-wrong-space", ["C08"],
    (M, "            suit_condition_version: SuitRepPolicy,\n", "            suit_condition_version: SuitRepPolicy,\n            suit_parameter_uri: SuitRepPolicy,\n"))
brk("c08-enum-accepts-any", ["C08"], (C, "if value not in [i.name for i in self._metadata.children]:", "if False:"))
ben("c08-reformat-keys", ["C08", "C02"], (K, 'class suit_directive_swap(suit_key):\n    """suit-directive-swap metadata."""\n\n    id = 31\n    name = "suit-directive-swap"',
                                         'class suit_directive_swap(suit_key):\n    """swap."""\n    name = "suit-directive-swap"\n    id = 0x1F'))
ben("c08-new-vocabulary", ["C08", "C02"],
    (K, 'class suit_timeout(suit_key):', 'class suit_priv_extension(suit_key):\n    """private."""\n\n    id = 99\n    name = "suit-priv-extension"\n\n\nclass suit_timeout(suit_key):'),
    (M, "from suit_generator.suit.types.keys import (", "from suit_generator.suit.types.keys import (\n    suit_priv_extension,"),
    (M, "            suit_parameter_version: cbstr(SuitParameterVersion),\n", "            suit_parameter_version: cbstr(SuitParameterVersion),\n            suit_priv_extension: SuitUint,\n"))

# ------------------------------------------------------------------ C02 shape / encoders
brk("c02-drop-cbstr-param-digest", ["C02"], (M, "suit_parameter_image_digest: cbstr(SuitDigest),", "suit_parameter_image_digest: SuitDigest,"))
brk("c02-extra-cbstr-uri", ["C02"], (M, "suit_parameter_uri: SuitTstr,", "suit_parameter_uri: cbstr(SuitTstr),"))
brk("c02-group-3", ["C02"], (M, "    _metadata = Metadata(children=[SuitCommand])\n    _group = 2", "    _metadata = Metadata(children=[SuitCommand])\n    _group = 3"))
brk("c02-union-order-compid", ["C02"], (M, "children=[SuitUUID, SuitBchar, cbstr(SuitTstr), cbstr(SuitInt), SuitBstr]", "children=[SuitUUID, SuitBchar, cbstr(SuitInt), cbstr(SuitTstr), SuitBstr]"))
brk("c02-canonical", ["C02"], (C, "            return cbor2.dumps(obj)\n        except Exception:\n            raise ValueError(\"Cannot serialize data!\")", "            return cbor2.dumps(obj, canonical=True)\n        except Exception:\n            raise ValueError(\"Cannot serialize data!\")"))
brk("c02-sorted-items", ["C02"], (C, "        data = {}\n        for k, v in self.value.items():\n            if k is suit_integrated_payloads", "        data = {}\n        for k, v in sorted(self.value.items(), key=lambda kv: kv[0].id):\n            if k is suit_integrated_payloads"))
brk("c02-cbstr-double", ["C02"], (C, "            return cbor2.dumps(super().to_cbor())", "            return cbor2.dumps(cbor2.dumps(super().to_cbor()))"))
brk("c02-tuple-position-swap", ["C02"], (SEC, '            "protected": cbstr(SuitHeaderMap),\n            "unprotected": SuitHeaderData,\n            "payload": CoseSign1Payload,', '            "unprotected": SuitHeaderData,\n            "protected": cbstr(SuitHeaderMap),\n            "payload": CoseSign1Payload,'))
brk("c02-bitfield-32", ["C02"], (M, "    _bit_class = SuitRepPolicyBits\n    _bit_length = 8", "    _bit_class = SuitRepPolicyBits\n    _bit_length = 4"))
brk("c02-value-dependent-wrap", ["C02"], (C, '    def to_cbor(self) -> bytes:\n        """Dump SUIT representation to cbor encoded bytes."""\n        return self.value.to_cbor()',
                                          '    def to_cbor(self) -> bytes:\n        """Dump SUIT representation to cbor encoded bytes."""\n        if len(self.value.to_cbor()) > 255:\n            return self.serialize_cbor(self.value.to_cbor())\n        return self.value.to_cbor()'))
brk("c02-flatten-only-payloads", ["C02"], (C, "            if k is suit_integrated_payloads or k is suit_integrated_dependencies:\n                data.update(", "            if k is suit_integrated_payloads:\n                data.update("))
brk("c02-try-each-unwrapped", ["C02"], (M, "    _metadata = Metadata(children=[cbstr(SuitCommandSequence)])", "    _metadata = Metadata(children=[SuitCommandSequence])"))
ben("c02-rename-class", ["C02", "C08"], (M, "SuitRepPolicy", "SuitReportingPolicy", "all"))
ben("c02-reorder-map-entries", ["C02", "C08"], (M, "            suit_directive_fetch: SuitRepPolicy,\n            suit_directive_copy: SuitRepPolicy,", "            suit_directive_copy: SuitRepPolicy,\n            suit_directive_fetch: SuitRepPolicy,"))

# ------------------------------------------------------------------ C12 MPI
brk("c12-dp-swapped", ["C12"], (MPI, '        if downgrade_prevention_enabled:\n            downgrade_prevention_enabled_bytes = b"\\02"\n        else:\n            downgrade_prevention_enabled_bytes = b"\\01"', '        if downgrade_prevention_enabled:\n            downgrade_prevention_enabled_bytes = b"\\01"\n        else:\n            downgrade_prevention_enabled_bytes = b"\\02"'))
brk("c12-sv-boot-2", ["C12"], (MPI, 'signature_verification_bytes = b"\\03"', 'signature_verification_bytes = b"\\02"'))
brk("c12-reserved-11", ["C12"], (MPI, '+ b"\\xff" * 12  # Reserved', '+ b"\\xff" * 11  # Reserved'))
brk("c12-pad-zero", ["C12"], (MPI, 'mpi_hex.frombytes(mpi.ljust(size, b"\\xff"), address)', 'mpi_hex.frombytes(mpi.ljust(size, b"\\x00"), address)'))
brk("c12-cid-flat", ["C12", "C13"], (MPI, "        cid = uuid.uuid5(vid, class_name)\n\n        if downgrade", "        cid = uuid.uuid5(uuid.NAMESPACE_DNS, class_name)\n\n        if downgrade"))
brk("c12-vid-cid-swapped", ["C12"], (MPI, "            + vid.bytes\n            + cid.bytes", "            + cid.bytes\n            + vid.bytes"))
brk("c12-bounds-off-by-one", ["C12"], (MPI, "(slot_hex.maxaddr() > address + size - 1)", "(slot_hex.maxaddr() > address + size)"))
brk("c12-bounds-no-min", ["C12"], (MPI, "if (slot_hex.minaddr() < address) or (slot_hex.maxaddr() > address + size - 1):", "if slot_hex.maxaddr() > address + size - 1:"))
brk("c12-overlap-replace", ["C12"], (MPI, "merged_hex.merge(slot_hex)", "merged_hex.merge(slot_hex, overlap=\"replace\")"))
brk("c12-tobinstr-exclusive", ["C12"], (MPI, "merged_hex.tobinstr(start=address, end=address + size - 1)", "merged_hex.tobinstr(start=address, end=address + size)"))
brk("c12-padding-after", ["C12"], (MPI, "        merged_hex.padding = 0xFF\n        merged_bin = merged_hex.tobinstr(start=address, end=address + size - 1)", "        merged_bin = merged_hex.tobinstr(start=address, end=address + size - 1)\n        merged_hex.padding = 0xFF"))
brk("c12-sha-of-prefix", ["C12"], (MPI, "hash_func.update(merged_bin)", "hash_func.update(merged_bin[:-1])"))
brk("c12-sha512", ["C12"], (MPI, "hash_func = hashes.Hash(hashes.SHA256(), backend=default_backend())", "hash_func = hashes.Hash(hashes.SHA512(), backend=default_backend())"))
brk("c12-main-swap", ["C12"], (MPI, '            kwargs["address"],\n            kwargs["size"],\n            kwargs["downgrade_prevention_enabled"],', '            kwargs["size"],\n            kwargs["address"],\n            kwargs["downgrade_prevention_enabled"],'))
brk("c12-choices", ["C12"], (MPI, 'choices=["update", "update-and-boot"],', 'choices=["update", "update-and-boot", "boot"],'))
ben("c12-bounds-equiv", ["C12"], (MPI, "(slot_hex.maxaddr() > address + size - 1)", "(slot_hex.maxaddr() >= address + size)"))
ben("c12-dict-policy", ["C12"], (MPI, '        if independent_updates:\n            independent_updates_bytes = b"\\02"\n        else:\n            independent_updates_bytes = b"\\01"', '        independent_updates_bytes = b"\\02" if independent_updates else b"\\01"'))
ben("c12-rename-local", ["C12"], (MPI, "merged_bin", "area_bytes", "all"))

# ------------------------------------------------------------------ C13 UUID derivations
brk("c13-desc-namespace-not-nested", ["C13"], (M, 'namespace = uuid.uuid5(uuid.NAMESPACE_DNS, uuid_obj["namespace"])', 'namespace = uuid.uuid5(uuid.NAMESPACE_URL, uuid_obj["namespace"])'))
brk("c13-desc-name-ns-swapped", ["C13"], (M, 'entry = uuid.uuid5(namespace, uuid_obj["name"]).bytes', 'entry = uuid.uuid5(namespace, uuid_obj["namespace"] if "namespace" in uuid_obj else uuid_obj["name"]).bytes'))
brk("c13-role-vid-flat", ["C13"], (IMG, "        cid = uuid.uuid5(vid, class_name)\n        self._assignments[cid.hex]", "        cid = uuid.uuid5(uuid.NAMESPACE_DNS, vendor_name + class_name)\n        self._assignments[cid.hex]"))
brk("c13-role-key-vid", ["C13"], (IMG, "self._assignments[cid.hex] = {", "self._assignments[vid.hex] = {"))
brk("c13-kconfig-class-from-root", ["C13"], (IMG, '                    "class_name": config[f"SB_CONFIG_SUIT_MPI_{manifest}_CLASS_NAME"],\n                    "role"', '                    "class_name": config["SB_CONFIG_SUIT_MPI_ROOT_CLASS_NAME"],\n                    "role"'))
brk("c13-kconfig-root-unmapped", ["C13"], (IMG, 'ManifestRole[f"APP_{manifest}" if manifest == "ROOT" else manifest]', 'ManifestRole[f"APP_{manifest}" if manifest == "ROOT_" else manifest]'))
brk("c13-kconfig-regex-no-digit", ["C13"], (IMG, "(?P<manifest>[A-Z1-9_]+)_VENDOR_NAME$", "(?P<manifest>[A-Z_]+)_VENDOR_NAME$"))
brk("c13-dup-check-or", ["C13"], (IMG, '                        item["vendor_name"] == config[f"SB_CONFIG_SUIT_MPI_{manifest}_VENDOR_NAME"]\n                        and item["class_name"]', '                        item["vendor_name"] == config[f"SB_CONFIG_SUIT_MPI_{manifest}_VENDOR_NAME"]\n                        and item["role"]'))
brk("c13-assign-swapped", ["C13"], (IMG, '            for entry in self._get_role_assignments_from_kconfig(kconfig):\n                self.assign_role(entry["vendor_name"], entry["class_name"], entry["role"])', '            for entry in self._get_role_assignments_from_kconfig(kconfig):\n                self.assign_role(entry["class_name"], entry["vendor_name"], entry["role"])'))
ben("c13-rename-locals", ["C13", "C12"], (MPI, "        vid = uuid.uuid5(uuid.NAMESPACE_DNS, vendor_name)\n        cid = uuid.uuid5(vid, class_name)", "        vendor_uuid = uuid.uuid5(uuid.NAMESPACE_DNS, vendor_name)\n        vid = vendor_uuid\n        cid = uuid.uuid5(vendor_uuid, class_name)"))

# ------------------------------------------------------------------ C16 update candidate info
brk("c16-big-endian", ["C16"], (IMG, 'return "<" + "IIII" + dfu_max_caches * "II"', 'return ">" + "IIII" + dfu_max_caches * "II"'))
brk("c16-native-order", ["C16"], (IMG, 'return "<" + "IIII" + dfu_max_caches * "II"', 'return "IIII" + dfu_max_caches * "II"'))
brk("c16-magic", ["C16"], (IMG, "UPDATE_MAGIC_VALUE_AVAILABLE = 0x55AA55AA", "UPDATE_MAGIC_VALUE_AVAILABLE = 0xAA55AA55"))
brk("c16-addr-size-swapped", ["C16"], (IMG, "            dfu_partition_address,  # SUIT envelope address\n            candidate_size,  # SUIT envelope size", "            candidate_size,  # SUIT envelope size\n            dfu_partition_address,  # SUIT envelope address"))
brk("c16-cache-count-plus-one", ["C16"], (IMG, "all_cache_values = dfu_max_caches * [0, 0]", "all_cache_values = (dfu_max_caches + 1) * [0, 0]"))
brk("c16-size-of-other-file", ["C16"], (IMG, "                os.path.getsize(input_file),\n", "                os.path.getsize(dfu_partition_output_file),\n"))
brk("c16-uci-at-partition", ["C16"], (IMG, "                dfu_partition_address, update_candidate_size, dfu_max_caches\n            ),\n            update_candidate_info_address,", "                dfu_partition_address, update_candidate_size, dfu_max_caches\n            ),\n            dfu_partition_address,"))
brk("c16-bin2hex-offset", ["C16"], (IMG, "if err := bin2hex(input_file, dfu_partition_output_file, dfu_partition_address):", "if err := bin2hex(input_file, dfu_partition_output_file, dfu_partition_address & 0xFFFF0000):"))
brk("c16-bin2hex-unchecked", ["C16"], (IMG, "        if err := bin2hex(input_file, dfu_partition_output_file, dfu_partition_address):\n            raise GeneratorError(f\"Failed to convert {input_file} to {dfu_partition_output_file}: {err}\")", "        bin2hex(input_file, dfu_partition_output_file, dfu_partition_address)"))
brk("c16-main-swap", ["C16"], (IMG, '            kwargs["update_candidate_info_address"],\n            kwargs["dfu_partition_address"],\n            kwargs["dfu_max_caches"],', '            kwargs["dfu_partition_address"],\n            kwargs["update_candidate_info_address"],\n            kwargs["dfu_max_caches"],'))
brk("c16-build-glue-swap", ["C16"], (BUILD, "            update_candidate_info_address=arguments.update_candidate_info_address,\n            dfu_partition_address=arguments.dfu_partition_address,", "            update_candidate_info_address=arguments.dfu_partition_address,\n            dfu_partition_address=arguments.update_candidate_info_address,"))
brk("c16-regions-2", ["C16"], (IMG, "            1,  # Nb of memory regions", "            2,  # Nb of memory regions"))
ben("c16-struct-pack", ["C16"], (IMG, "        uci = struct.Struct(ImageCreator._prepare_suit_storage_struct_format(dfu_max_caches))\n", "        uci_format = ImageCreator._prepare_suit_storage_struct_format(dfu_max_caches)\n"),
    (IMG, "        return uci.pack(*struct_values)", "        return struct.pack(uci_format, *struct_values)"))
ben("c16-size-local", ["C16"], (IMG, "            ImageCreator._create_suit_storage_file_for_update(\n                dfu_partition_address,\n                os.path.getsize(input_file),", "            envelope_size = os.path.getsize(input_file)\n            ImageCreator._create_suit_storage_file_for_update(\n                dfu_partition_address,\n                envelope_size,"))
