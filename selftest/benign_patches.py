#!/venv/bin/python
"""Behaviour-preserving refactorings written by sub-agents (benign/<id>/patch.diff): every check must stay silent on each of them.

usage: benign_patches.py [--only ID[,ID]] [--props C01,C02] [--jobs N]

Each patch is applied to a scratch copy of /repo's packages (under /var/tmp, removed afterwards) and every check runs with
--repo <copy> --no-write.  Prints one line per patch; exit status 1 when a check fires or cannot analyse (unless the patch's meta.json lists that check under
"declined": a form documented in DESIGN.md as outside what its rules follow - exit 2 there is the expected answer), 3 when a patch no longer
applies to /repo's current tree (refresh it)."""
import argparse, json, shutil, subprocess, sys, tempfile
from concurrent.futures import ThreadPoolExecutor
from pathlib import Path

VERIF = Path(__file__).resolve().parent.parent
ALL = [f"C{i:02d}" for i in range(1, 21)]
COPY = ("suit_generator", "ncs", "build_configuration", "requirements.txt")


def run_check(prop, repo):
    pr = subprocess.run([str(VERIF / "check"), prop, "--repo", str(repo), "--no-write"], capture_output=True, text=True, cwd=str(VERIF))
    first = next((l.strip() for l in pr.stdout.splitlines() if l.startswith("  ") and "[" in l), "")
    if pr.returncode == 2:
        first = next((l for l in pr.stdout.splitlines() if "ANALYSIS-ERROR" in l), "")
    return prop, pr.returncode, first[:240]


def one(args):
    d, props, repo_root = args
    tmp = Path(tempfile.mkdtemp(prefix="sgbenignp_", dir="/var/tmp"))
    try:
        for c in COPY:
            src = Path(repo_root) / c
            if src.is_dir():
                shutil.copytree(src, tmp / c, ignore=shutil.ignore_patterns("__pycache__", "*.pyc"))
            elif src.is_file():
                shutil.copy(src, tmp / c)
        r = subprocess.run(["patch", "-p1", "-s", "-d", str(tmp), "-i", str(d / "patch.diff")], capture_output=True, text=True)
        if r.returncode != 0:
            return d.name, "STALE", [(None, 3, (r.stdout + r.stderr).strip()[-160:])]
        with ThreadPoolExecutor(5) as ex:
            res = list(ex.map(lambda p: run_check(p, tmp), props))
        bad = [x for x in res if x[1] != 0]
        # a check may decline a refactoring (exit 2, never a VIOLATION) when meta.json lists it under "declined" with the reason
        # (a form documented as outside what the rules follow); anything else that is not silent is an alarm
        declined = json.loads((d / "meta.json").read_text()).get("declined", {}) if (d / "meta.json").is_file() else {}
        if bad and all(code == 2 and p in declined for p, code, _ in bad):
            return d.name, "declined", bad
        return d.name, "silent" if not bad else "ALARM", bad
    finally:
        shutil.rmtree(tmp, ignore_errors=True)


def run_for_prop(prop, repo_root="/repo"):
    """Used by the thorough tier: [(patch id, status, first line)] of one property's check on every stored refactoring."""
    dirs = sorted(p.parent for p in (VERIF / "benign").glob("*/patch.diff"))
    with ThreadPoolExecutor(8) as ex:
        res = list(ex.map(one, [(d, [prop], repo_root) for d in dirs]))
    return [(n, st, (bad[0][2] if bad else "")) for n, st, bad in res]


def main():
    ap = argparse.ArgumentParser()
    ap.add_argument("--only", default=None)
    ap.add_argument("--props", default="all")
    ap.add_argument("--jobs", type=int, default=4)
    a = ap.parse_args()
    props = ALL if a.props == "all" else a.props.split(",")
    dirs = sorted(p.parent for p in (VERIF / "benign").glob("*/patch.diff"))
    if a.only:
        dirs = [d for d in dirs if d.name in a.only.split(",")]
    with ThreadPoolExecutor(a.jobs) as ex:
        res = list(ex.map(one, [(d, props, "/repo") for d in dirs]))
    rc = 0
    for name, status, bad in res:
        print(f"{status:7s} {name}")
        for p, code, first in bad:
            print(f"        {p or ''} rc={code} {first}")
        if status == "ALARM":
            rc = max(rc, 1)
        if status == "STALE":
            rc = max(rc, 3)
    print(f"{sum(1 for _, s, _ in res if s == 'silent')}/{len(res)} refactorings leave every check silent; "
          f"{sum(1 for _, s, _ in res if s == 'declined')} declined by a check as documented (exit 2, no verdict)")
    return rc


if __name__ == "__main__":
    sys.exit(main())
